#!/bin/bash
# usage: seedcheck.sh C05 4 [more props...] -> applies seeded patch to /repo, runs bin/check quick for the property (and extra ones), reverts
P=$1; N=$2; shift 2
D=/verif/seeded/$P-$N
cd /repo && git status --short | grep -q . && { echo "/repo not clean"; exit 2; }
git -C /repo apply $D/patch.diff || exit 2
for Q in $P "$@"; do
  (cd /verif && timeout 1500 bin/check $Q --tier quick > /tmp/seedcheck_${P}_${N}_$Q.log 2>&1; echo "check $Q exit=$?")
  grep -E "VIOLATION|KNOWN-FINDING|done in|disagree" /tmp/seedcheck_${P}_${N}_$Q.log | cut -c1-260 | head -12
done
git -C /repo checkout -- .
git -C /repo status --short
cd /verif && git checkout -- evidence 2>/dev/null; git -C /verif status --short | grep -v seeded | head
