#!/bin/bash
# usage: seedproc.sh C05 4   -> confirms /tmp/seed5_C05, stores /verif/seeded/C05-4, runs bin/check C05 on /repo with the patch, reverts
P=$1; N=$2; W=/tmp/seed5_$P; D=/verif/seeded/$P-$N
set -u
cd $W || exit 2
[ -s patch.diff ] || { echo "no patch.diff"; exit 2; }
mkdir -p $D
cp patch.diff $D/patch.diff
cp biscuit-auth/tests/seeded_demo.rs $D/seeded_demo.rs
cp notes.md $D/notes.md 2>/dev/null
{
echo "== state: $(git -C $W status --short | tr '\n' ' ')"
# make sure patch applied
git apply --check -R patch.diff 2>/dev/null || git apply patch.diff
echo "== demo WITH patch"
(cd biscuit-auth && cargo test --offline --test seeded_demo 2>&1 | grep -E "^test |test result|error" | head -20)
echo "== suite WITH patch (biscuit-auth lib + tests)"
(cd biscuit-auth && cargo test --offline 2>&1 | grep -E "test result|FAILED|failed" | head -30)
git apply -R patch.diff
echo "== demo WITHOUT patch"
(cd biscuit-auth && cargo test --offline --test seeded_demo 2>&1 | grep -E "^test |test result|error" | head -20)
git apply patch.diff
} > $D/confirm.txt 2>&1
cat $D/confirm.txt
