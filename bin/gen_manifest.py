#!/usr/bin/env python3
"""Regenerates MANIFEST.json from the table below (single source of truth)."""
import json, os, sys
HERE = os.path.dirname(os.path.dirname(os.path.abspath(__file__)))
sys.path.insert(0, os.path.join(HERE, "lib"))
from manifest_table import CHECKS, NOT_APPLICABLE, HOOK_COMMITS

checks = []
for c in CHECKS:
    pid = c["id"]
    checks.append({
        "property_id": pid,
        "quick_cmd": "bin/check %s --tier quick" % pid,
        "thorough_cmd": "bin/check %s --tier thorough" % pid,
        "evidence_file": "/verif/evidence/%s.json" % pid,
        "replay_cmd_template": "bin/check %s --replay {path}" % pid,
        "engine": "tlc+vh",
        "level_claimed": {"category": c["level"], "text": c["text"], "design_ref": c["design_ref"]},
        "level_note": c["note"],
        "technique": c["technique"],
    })
m = {
    "version": 1,
    "setup_cmd": "bin/setup",
    "hooks": {
        "guard": "--cfg biscuit_auth_verif",
        "enable": "harness/.cargo/config.toml sets rustflags = [\"--cfg\", \"biscuit_auth_verif\"] for the harness build (path dependencies on /repo/biscuit-auth, /repo/biscuit-capi, /repo/biscuit-parser)",
        "baseline_off_cmd": "cd /repo && cargo test --workspace --no-fail-fast --offline",
        "source_commits": HOOK_COMMITS,
        "add_only": True,
    },
    "engines": [
        {"name": "tlc+vh", "path": "/verif/bin/check",
         "serves_properties": [c["id"] for c in CHECKS],
         "kind_free_text": "explicit TLA+ specification (spec/*.tla) model-checked with TLC; every exported TLC state/behaviour is replayed on the real library by the Rust harness (harness/, binary vh) and recorded implementation traces are validated by TLC against trace specs"},
    ],
    "checks": checks,
    "not_applicable": NOT_APPLICABLE,
    "notes": "See DESIGN.md. Known findings (genuine defects re-found by the checks) are listed in known_findings.json.",
}
json.dump(m, open(os.path.join(HERE, "MANIFEST.json"), "w"), indent=1)
print("MANIFEST.json written: %d checks, %d not_applicable" % (len(checks), len(NOT_APPLICABLE)))
