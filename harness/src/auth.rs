//! Replay of spec/AuthMC.tla programs (token + authorizer) on the real library.
use crate::keys;
use crate::util;
use biscuit_auth::builder::{self, AuthorizerBuilder, BlockBuilder};
use biscuit_auth::datalog::{RunLimits, SymbolTable};
use biscuit_auth::error;
use biscuit_auth::{Authorizer, Biscuit};
use serde_json::{json, Value};
use std::collections::BTreeSet;
use std::time::Duration;

pub const AZ: u64 = 99;

pub fn ext_key(name: &str) -> biscuit_auth::KeyPair {
    // E1: ed25519, E2: secp256r1 (both algorithms are exercised)
    let alg = if name.ends_with('2') { "p256" } else { "ed" };
    keys::keypair(name, alg)
}

/// Datalog text of a ground term / variable of the spec
pub fn term_text(t: &str) -> String {
    if t.starts_with('$') {
        return t.to_string();
    }
    if let Some(r) = t.strip_prefix("i:") {
        return r.to_string();
    }
    if let Some(r) = t.strip_prefix("s:") {
        return format!("\"{r}\"");
    }
    if let Some(r) = t.strip_prefix("b:") {
        return (if r == "t" { "true" } else { "false" }).to_string();
    }
    if let Some(r) = t.strip_prefix("d:") {
        let secs: i64 = r.parse().unwrap();
        // small offsets from 2020-01-01T00:00:00Z
        return format!("2020-01-01T00:00:{:02}Z", secs);
    }
    if let Some(r) = t.strip_prefix("y:") {
        return format!("hex:{r}");
    }
    if t == "n:" {
        return "null".to_string();
    }
    if let Some(r) = t.strip_prefix("raw:") {
        return r.to_string();
    }
    format!("\"{t}\"")
}

pub fn atom_text(a: &Value) -> String {
    let args: Vec<String> = a["a"].as_array().unwrap().iter().map(|t| term_text(t.as_str().unwrap())).collect();
    format!("{}({})", a["p"].as_str().unwrap(), args.join(", "))
}

pub fn guard_text(g: &Value) -> String {
    let l = term_text(g["l"].as_str().unwrap());
    let r = term_text(g["r"].as_str().unwrap());
    match g["k"].as_str().unwrap() {
        "eq" => format!("{l} == {r}"),
        "neq" => format!("{l} != {r}"),
        "lt" => format!("{l} < {r}"),
        "nz" => format!("10 / {l} >= 0"),
        "ov" => format!("9223372036854775807 + {l} > 0"),
        "false" => "false".to_string(),
        o => panic!("guard kind {o}"),
    }
}

pub fn scope_text(scope: &Value) -> String {
    let items: Vec<String> = scope
        .as_array()
        .unwrap()
        .iter()
        .map(|s| match s.as_str().unwrap() {
            "authority" => "authority".to_string(),
            "previous" => "previous".to_string(),
            k => ext_key(k).public().print(),
        })
        .collect();
    if items.is_empty() {
        String::new()
    } else {
        format!(" trusting {}", items.join(", "))
    }
}

pub fn body_text(q: &Value) -> String {
    let mut parts: Vec<String> = q["body"].as_array().unwrap().iter().map(atom_text).collect();
    parts.extend(q["guards"].as_array().unwrap().iter().map(guard_text));
    if parts.is_empty() {
        parts.push("true".to_string());
    }
    format!("{}{}", parts.join(", "), scope_text(&q["scope"]))
}

pub fn rule_text(r: &Value) -> String {
    format!("{} <- {}", atom_text(&r["head"]), body_text(r))
}

pub fn check_text(c: &Value) -> String {
    let kw = match c["kind"].as_str().unwrap() {
        "one" => "check if",
        "all" => "check all",
        "reject" => "reject if",
        o => panic!("check kind {o}"),
    };
    let alts: Vec<String> = c["queries"].as_array().unwrap().iter().map(body_text).collect();
    format!("{kw} {}", alts.join(" or "))
}

pub fn policy_text(p: &Value) -> String {
    let kw = match p["kind"].as_str().unwrap() {
        "allow" => "allow if",
        "deny" => "deny if",
        o => panic!("policy kind {o}"),
    };
    let alts: Vec<String> = p["queries"].as_array().unwrap().iter().map(body_text).collect();
    format!("{kw} {}", alts.join(" or "))
}

pub fn block_code(b: &Value) -> String {
    let mut s = String::new();
    for f in b["facts"].as_array().unwrap() {
        s += &format!("{};\n", atom_text(f));
    }
    for r in b["rules"].as_array().unwrap() {
        s += &format!("{};\n", rule_text(r));
    }
    for c in b["checks"].as_array().unwrap() {
        s += &format!("{};\n", check_text(c));
    }
    s
}

fn scopes_of(v: &Value) -> Vec<builder::Scope> {
    v.as_array()
        .unwrap()
        .iter()
        .map(|s| match s.as_str().unwrap() {
            "authority" => builder::Scope::Authority,
            "previous" => builder::Scope::Previous,
            k => builder::Scope::PublicKey(ext_key(k).public()),
        })
        .collect()
}

fn te(e: error::Token) -> String {
    format!("{e:?}")
}

pub fn build_token(blocks: &[Value]) -> Result<Biscuit, String> {
    let root = keys::keypair("R", "ed");
    let mut tok: Option<Biscuit> = None;
    for (i, b) in blocks.iter().enumerate() {
        let nk = keys::keypair(&format!("N{i}"), "ed");
        let code = block_code(b);
        if i == 0 {
            let mut bb = Biscuit::builder().code(&code).map_err(te)?;
            for s in scopes_of(&b["scope"]) {
                bb = bb.scope(s);
            }
            tok = Some(bb.build_with_key_pair(&root, SymbolTable::new(), &nk).map_err(te)?);
        } else {
            let mut bb = BlockBuilder::new().code(&code).map_err(te)?;
            for s in scopes_of(&b["scope"]) {
                bb = bb.scope(s);
            }
            let t = tok.take().unwrap();
            let ext = b["ext"].as_str().unwrap();
            let nt = if ext == "none" {
                t.append_with_keypair(&nk, bb).map_err(te)?
            } else {
                let ek = ext_key(ext);
                let req = t.third_party_request().map_err(te)?;
                let blk = req.create_block(&ek.private(), bb).map_err(te)?;
                t.append_third_party_with_keypair(ek.public(), blk, nk).map_err(te)?
            };
            tok = Some(nt);
        }
    }
    // the token travels as bytes
    let t = tok.unwrap();
    let bytes = t.to_vec().map_err(te)?;
    Biscuit::from(bytes, root.public()).map_err(te)
}

pub fn big_limits() -> RunLimits {
    RunLimits { max_facts: 100_000, max_iterations: 10_000, max_time: Duration::from_secs(30) }
}

pub fn authz_code(a: &Value) -> String {
    let mut s = block_code(a);
    for p in a["policies"].as_array().unwrap() {
        s += &format!("{};\n", policy_text(p));
    }
    s
}

pub fn build_authorizer(a: &Value, tok: &Biscuit, limits: RunLimits) -> Result<Authorizer, String> {
    let mut ab = AuthorizerBuilder::new().code(authz_code(a)).map_err(te)?;
    for s in scopes_of(&a["scope"]) {
        ab = ab.scope(s);
    }
    ab.limits(limits).build(tok).map_err(te)
}

/// result of authorize() in the spec's vocabulary
pub fn auth_result(r: &Result<usize, error::Token>) -> Value {
    fn checks(cs: &[error::FailedCheck]) -> Vec<Value> {
        cs.iter()
            .map(|c| match c {
                error::FailedCheck::Block(b) => json!({"owner": b.block_id, "idx": b.check_id}),
                error::FailedCheck::Authorizer(a) => json!({"owner": AZ, "idx": a.check_id}),
            })
            .collect()
    }
    match r {
        Ok(i) => json!({"policy": "allow", "index": i, "ok": true, "failed": []}),
        Err(error::Token::FailedLogic(error::Logic::Unauthorized { policy, checks: cs })) => {
            let (k, i) = match policy {
                error::MatchedPolicy::Allow(i) => ("allow", *i),
                error::MatchedPolicy::Deny(i) => ("deny", *i),
            };
            json!({"policy": k, "index": i, "ok": false, "failed": checks(cs)})
        }
        Err(error::Token::FailedLogic(error::Logic::NoMatchingPolicy { checks: cs })) => {
            json!({"policy": "none", "index": 0, "ok": false, "failed": checks(cs)})
        }
        Err(e) => json!({"error": format!("{e:?}")}),
    }
}

pub fn canon_failed(v: &Value) -> Vec<(u64, u64)> {
    // authorizer checks first, then blocks in order (the order authorize() reports them)
    let mut l: Vec<(u64, u64)> = v
        .as_array()
        .unwrap()
        .iter()
        .map(|c| (c["owner"].as_u64().unwrap(), c["idx"].as_u64().unwrap()))
        .collect();
    l.sort_by_key(|(o, i)| (if *o == AZ { 0 } else { 1 + *o }, *i));
    l
}

pub fn listed_failed(v: &Value) -> Vec<(u64, u64)> {
    v.as_array()
        .unwrap()
        .iter()
        .map(|c| (c["owner"].as_u64().unwrap(), c["idx"].as_u64().unwrap()))
        .collect()
}

fn world_of(a: &Authorizer) -> BTreeSet<(Vec<u64>, String)> {
    a.verif_facts()
        .into_iter()
        .map(|(o, f)| {
            let mut o: Vec<u64> = o.into_iter().map(|x| if x == usize::MAX { AZ } else { x as u64 }).collect();
            o.sort();
            (o, f)
        })
        .collect()
}

fn expected_world(res: &Value) -> BTreeSet<(Vec<u64>, String)> {
    res["world"]
        .as_array()
        .unwrap()
        .iter()
        .map(|e| {
            let mut o: Vec<u64> = e["o"].as_array().unwrap().iter().map(|x| x.as_u64().unwrap()).collect();
            o.sort();
            (o, atom_text(e))
        })
        .collect()
}

fn expected_query(v: &Value) -> BTreeSet<String> {
    v.as_array().unwrap().iter().map(|a| a["a"][0].as_str().unwrap().to_string()).collect()
}

/// authorize one program and compare everything with the spec's result record
pub fn check_program(blocks: &[Value], authz: &Value, res: &Value, tag: &str, problems: &mut Vec<String>) -> Option<Value> {
    // no block at all: an authorizer without a token
    let built = if blocks.is_empty() {
        AuthorizerBuilder::new().code(authz_code(authz)).map_err(te).and_then(|mut ab| {
            for s in scopes_of(&authz["scope"]) {
                ab = ab.scope(s);
            }
            ab.limits(big_limits()).build_unauthenticated().map_err(te)
        })
    } else {
        match build_token(blocks) {
            Ok(tok) => build_authorizer(authz, &tok, big_limits()),
            Err(e) => {
                problems.push(format!("{tag}: building the token failed: {e}"));
                return None;
            }
        }
    };
    let mut a = match built {
        Ok(a) => a,
        Err(e) => {
            problems.push(format!("{tag}: building the authorizer failed: {e}"));
            return None;
        }
    };
    let r = a.authorize();
    let got = auth_result(&r);
    if got.get("error").is_some() {
        problems.push(format!("{tag}: authorize returned an error the spec does not predict: {}", got["error"]));
        return Some(got);
    }
    if got["policy"] != res["policy"] || (got["policy"] != "none" && got["index"] != res["index"]) {
        problems.push(format!("{tag}: matched policy {} #{} but the spec says {} #{}", got["policy"], got["index"], res["policy"], res["index"]));
    }
    if got["ok"] != res["ok"] {
        problems.push(format!("{tag}: authorized={} but the spec says {}", got["ok"], res["ok"]));
    }
    let want_failed = canon_failed(&res["failed"]);
    if listed_failed(&got["failed"]) != want_failed {
        problems.push(format!("{tag}: failed checks {:?} but the spec says {:?}", listed_failed(&got["failed"]), want_failed));
    }
    let w = world_of(&a);
    let ew = expected_world(res);
    if w != ew {
        let extra: Vec<_> = w.difference(&ew).take(3).collect();
        let missing: Vec<_> = ew.difference(&w).take(3).collect();
        problems.push(format!("{tag}: world differs: extra {:?} missing {:?}", extra, missing));
    }
    // queries
    let q: Result<Vec<(String,)>, _> = a.query("r($x) <- f($x)");
    match q {
        Ok(v) => {
            let n = v.len();
            let g: BTreeSet<String> = v.into_iter().map(|t| t.0).collect();
            if n != g.len() {
                problems.push(format!("{tag}: query() returned {n} answers for {} distinct facts", g.len()));
            }
            if g != expected_query(&res["q_default"]) {
                problems.push(format!("{tag}: query() sees {:?}, spec {:?}", g, expected_query(&res["q_default"])));
            }
        }
        Err(e) => problems.push(format!("{tag}: query failed {e:?}")),
    }
    // query_exactly_one: the single result, or an error that carries the number of results
    if res.get("q_one").is_some() {
        let q: Result<(String,), _> = a.query_exactly_one("r($x) <- f($x)");
        let want_ok = res["q_one"]["ok"].as_bool().unwrap();
        let want_n = res["q_one"]["n"].as_u64().unwrap();
        match q {
            Ok(v) => {
                if !want_ok {
                    problems.push(format!("{tag}: query_exactly_one returned {:?}, the spec finds {want_n} facts", v.0));
                } else if !expected_query(&res["q_default"]).contains(&v.0) {
                    problems.push(format!("{tag}: query_exactly_one returned {:?}, not the spec's fact", v.0));
                }
            }
            Err(error::Token::RunLimit(error::RunLimit::UnexpectedQueryResult(1, n))) => {
                if want_ok || n as u64 != want_n {
                    problems.push(format!("{tag}: query_exactly_one reports {n} facts, the spec finds {want_n}"));
                }
            }
            Err(e) => problems.push(format!("{tag}: query_exactly_one failed {e:?}")),
        }
    }
    let q: Result<Vec<(String,)>, _> = a.query_all("r($x) <- f($x)");
    match q {
        Ok(v) => {
            let n = v.len();
            let g: BTreeSet<String> = v.into_iter().map(|t| t.0).collect();
            if n != g.len() {
                problems.push(format!("{tag}: query_all() returned {n} answers for {} distinct facts", g.len()));
            }
            if g != expected_query(&res["q_all"]) {
                problems.push(format!("{tag}: query_all() sees {:?}, spec {:?}", g, expected_query(&res["q_all"])));
            }
        }
        Err(e) => problems.push(format!("{tag}: query_all failed {e:?}")),
    }
    let q: Result<Vec<(String,)>, _> = a.query_all("r($x) <- d($x)");
    match q {
        Ok(v) => {
            let n = v.len();
            let g: BTreeSet<String> = v.into_iter().map(|t| t.0).collect();
            if n != g.len() {
                problems.push(format!("{tag}: query_all(d) returned {n} answers for {} distinct facts", g.len()));
            }
            if g != expected_query(&res["q_d_all"]) {
                problems.push(format!("{tag}: query_all(d) sees {:?}, spec {:?}", g, expected_query(&res["q_d_all"])));
            }
        }
        Err(e) => problems.push(format!("{tag}: query_all(d) failed {e:?}")),
    }
    Some(got)
}

fn replay_prog(idx: usize, case: &Value) -> Value {
    let prog = &case["prog"];
    let blocks: Vec<Value> = prog["blocks"].as_array().unwrap().clone();
    let mut problems = Vec::new();
    let r0 = util::catch(|| {
        let mut p = Vec::new();
        let g = check_program(&blocks, &prog["authz"], &case["res"], "token", &mut p);
        (g, p)
    });
    let mut got0 = None;
    match r0 {
        Ok((g, p)) => {
            got0 = g;
            problems.extend(p);
        }
        Err(p) => problems.push(format!("PANIC {p}")),
    }
    // C03: the extended token
    let ext = &case["ext"];
    let has_ext = !ext["facts"].as_array().unwrap().is_empty();
    if has_ext {
        let mut eb = blocks.clone();
        eb.push(ext.clone());
        let r1 = util::catch(|| {
            let mut p = Vec::new();
            let g = check_program(&eb, &prog["authz"], &case["res_ext"], "extended", &mut p);
            (g, p)
        });
        match r1 {
            Ok((g1, p)) => {
                problems.extend(p);
                // the property itself, asserted directly on the two real results
                if let (Some(g0), Some(g1)) = (&got0, &g1) {
                    if g1["ok"] == true && (g0["ok"] != true || g0["index"] != g1["index"]) {
                        problems.push(format!("MONOTONE: extended token authorized ({}) but the original is not ({})", g1, g0));
                    }
                    if g0.get("failed").is_some() && g1.get("failed").is_some() {
                        let f0: BTreeSet<_> = listed_failed(&g0["failed"]).into_iter().collect();
                        let f1: BTreeSet<_> = listed_failed(&g1["failed"]).into_iter().collect();
                        if !f0.is_subset(&f1) {
                            problems.push(format!("MONOTONE: a check that failed on the original passes on the extended token: {:?} vs {:?}", f0, f1));
                        }
                    }
                }
            }
            Err(p) => problems.push(format!("PANIC {p}")),
        }
    }
    json!({"idx": idx, "ok": problems.is_empty(), "problems": problems})
}

pub fn cmd_replay(input: &str, output: &str) {
    util::quiet_panics();
    let cases = util::read_ndjson(input);
    let rows = util::par_map(cases, || (), |_, i, case| replay_prog(i, case));
    util::write_ndjson(output, &rows);
    let bad = rows.iter().filter(|r| !r["ok"].as_bool().unwrap()).count();
    println!("auth-replay: {} cases, {} disagreements", rows.len(), bad);
}

/// debugging aid: print the real authorizer state and decision events for one case
pub fn cmd_debug(input: &str) {
    let cases = util::read_ndjson(input);
    let case = &cases[0];
    let prog = &case["prog"];
    let mut blocks: Vec<Value> = prog["blocks"].as_array().unwrap().clone();
    if std::env::var("WITH_EXT").is_ok() {
        blocks.push(case["ext"].clone());
    }
    for b in &blocks {
        println!("--- block code (ext {}, scope {}):\n{}", b["ext"], b["scope"], block_code(b));
    }
    println!("--- authorizer:\n{}", authz_code(&prog["authz"]));
    let tok = build_token(&blocks).unwrap();
    println!("{}", tok.print());
    let mut a = build_authorizer(&prog["authz"], &tok, big_limits()).unwrap();
    biscuit_auth::verif::record(true);
    let r = a.authorize();
    for e in biscuit_auth::verif::take() {
        println!("{e}");
    }
    println!("result {:?}", r);
    println!("{}", serde_json::to_string_pretty(&a.verif_state()).unwrap());
}

// ------------------------------------------------------------------ C11
/// N fresh builds of the same program: the set of observed outcomes must be a
/// subset of the spec's outcome set (binding) and a singleton (the property).
fn replay_outcomes(idx: usize, case: &Value, n: usize) -> Value {
    use rand::seq::SliceRandom;
    use rand::SeedableRng;
    let prog = &case["prog"];
    let allowed: BTreeSet<String> = case["outcomes"].as_array().unwrap().iter().map(|x| x.as_str().unwrap().to_string()).collect();
    let mut problems: Vec<String> = Vec::new();
    let mut observed: BTreeSet<String> = BTreeSet::new();
    let mut detail: BTreeSet<String> = BTreeSet::new();
    let mut iterations: BTreeSet<u64> = BTreeSet::new();
    let mut rng = rand::rngs::StdRng::seed_from_u64(keys::seed() ^ idx as u64);
    let r = util::catch(|| {
        let mut problems = Vec::new();
        let mut observed = BTreeSet::new();
        let mut detail = BTreeSet::new();
        let mut iters: BTreeSet<u64> = BTreeSet::new();
        for i in 0..n {
            // permute the insertion order of the facts every other run
            let mut blocks: Vec<Value> = prog["blocks"].as_array().unwrap().clone();
            if i % 2 == 1 {
                for b in blocks.iter_mut() {
                    let mut f = b["facts"].as_array().unwrap().clone();
                    f.shuffle(&mut rng);
                    b["facts"] = Value::Array(f);
                }
            }
            let tok = match build_token(&blocks) {
                Ok(t) => t,
                Err(e) => {
                    problems.push(format!("building the token failed: {e}"));
                    break;
                }
            };
            let mut limits = big_limits();
            if case["small_facts"].as_bool().unwrap_or(false) {
                limits.max_facts = 2;
            }
            if let Some(mi) = case["max_iter"].as_u64() {
                limits.max_iterations = mi;
            }
            let mut a = match build_authorizer(&prog["authz"], &tok, limits) {
                Ok(a) => a,
                Err(e) => {
                    problems.push(format!("building the authorizer failed: {e}"));
                    break;
                }
            };
            let mut a2 = a.clone();
            let r = a.authorize();
            let r2 = a2.authorize();
            if format!("{r:?}") != format!("{r2:?}") {
                detail.insert(format!("clone differs: {r:?} vs {r2:?}"));
            }
            // the number of passes is part of what a caller observes (Authorizer::iterations)
            if r.is_ok() {
                iters.insert(a.iterations());
                if let Some(p) = case["passes"].as_u64() {
                    if a.iterations() != p {
                        problems.push(format!("OUTSIDE-SPEC: {} passes performed, the naive evaluation of the spec needs {}", a.iterations(), p));
                    }
                }
            }
            for r in [r, r2] {
                let got = auth_result(&r);
                if let Some(e) = got.get("error") {
                    let es = e.as_str().unwrap_or("");
                    let kind = if es.contains("DivideByZero") {
                        "Ed"
                    } else if es.contains("Overflow") {
                        "Eo"
                    } else if es.contains("InvalidType") {
                        "Et"
                    } else if es.contains("RunLimit") {
                        "limit"
                    } else {
                        "other-error"
                    };
                    observed.insert(kind.to_string());
                    detail.insert(format!("error {}", e));
                } else {
                    observed.insert("result".to_string());
                    detail.insert(format!("{}", got));
                    let res = &case["res"];
                    // the whole world of an error-free run is the spec's least fixpoint (every origin of every fact)
                    if res.get("world").is_some() && world_of(&a) != expected_world(res) {
                        let (w, ew) = (world_of(&a), expected_world(res));
                        let extra: Vec<_> = w.difference(&ew).take(2).collect();
                        let missing: Vec<_> = ew.difference(&w).take(2).collect();
                        problems.push(format!("OUTSIDE-SPEC: world differs from the spec's: extra {:?} missing {:?}", extra, missing));
                        detail.insert(format!("world missing {:?} extra {:?}", missing, extra));
                    }
                    // the answers of a query are the distinct facts of the spec's result, each once
                    if res.get("q_d_all").is_some() {
                        for (qsrc, key) in [("r($x) <- d($x)", "q_d_all"), ("r($x) <- f($x)", "q_all")] {
                            if let Ok(v) = a.query_all::<_, (String,), _>(qsrc) {
                                let n = v.len();
                                let g: BTreeSet<String> = v.into_iter().map(|t| t.0).collect();
                                if n != g.len() || g != expected_query(&res[key]) {
                                    problems.push(format!("OUTSIDE-SPEC: query_all({qsrc}) returned {n} answers {:?}, the spec's result has {:?}", g, expected_query(&res[key])));
                                    detail.insert(format!("query_all {qsrc}: {n} answers"));
                                }
                            }
                        }
                    }
                    if got["policy"] != res["policy"] || got["ok"] != res["ok"] || listed_failed(&got["failed"]) != canon_failed(&res["failed"]) {
                        problems.push(format!("error-free result {} differs from the spec's {}", got, json!({"policy": res["policy"], "ok": res["ok"], "failed": res["failed"]})));
                    }
                }
            }
        }
        (problems, observed, detail, iters)
    });
    match r {
        Ok((p, o, d, it)) => {
            problems.extend(p);
            observed = o;
            detail = d;
            iterations = it;
        }
        Err(p) => problems.push(format!("PANIC {p}")),
    }
    if !observed.is_subset(&allowed) {
        problems.push(format!("OUTSIDE-SPEC: observed outcomes {:?} but the spec allows only {:?}", observed, allowed));
    }
    let nondet = detail.len() > 1 || iterations.len() > 1;
    json!({"idx": idx, "ok": problems.is_empty(), "problems": problems, "observed": observed, "allowed": allowed,
           "nondeterministic": nondet, "detail": detail, "iterations": iterations})
}

pub fn cmd_outcomes(input: &str, output: &str, n: usize) {
    util::quiet_panics();
    let cases = util::read_ndjson(input);
    let rows = util::par_map(cases, || (), move |_, i, case| replay_outcomes(i, case, n));
    util::write_ndjson(output, &rows);
    let bad = rows.iter().filter(|r| !r["ok"].as_bool().unwrap()).count();
    let nd = rows.iter().filter(|r| r["nondeterministic"].as_bool().unwrap()).count();
    println!("auth-outcomes: {} cases x {} builds, {} disagreements, {} nondeterministic", rows.len(), n, bad, nd);
}

// ------------------------------------------------------------------ impl -> spec
/// records authorize() on the programs of a TLC export: one `program` event, the hook's decision
/// events (usize::MAX rewritten to the spec's AZ) and the final result
pub fn cmd_record(input: &str, output: &str) {
    util::quiet_panics();
    let cases = util::read_ndjson(input);
    let rows = util::par_map(cases, || (), |_, _i, case| {
        let prog = &case["prog"];
        let mut out: Vec<Value> = vec![json!({"ev": "program", "prog": prog})];
        let blocks: Vec<Value> = prog["blocks"].as_array().unwrap().clone();
        let r = util::catch(|| -> Result<Vec<Value>, String> {
            let tok = build_token(&blocks)?;
            let mut a = build_authorizer(&prog["authz"], &tok, big_limits())?;
            biscuit_auth::verif::record(true);
            let r = a.authorize();
            let evs = biscuit_auth::verif::take();
            biscuit_auth::verif::record(false);
            let mut out = Vec::new();
            for e in evs {
                // usize::MAX does not fit TLC's integers
                let e = e.replace("18446744073709551615", "99");
                let v: Value = serde_json::from_str(&e).map_err(|x| format!("{x}: {e}"))?;
                if v["ev"] == "decision" {
                    out.push(v);
                }
            }
            let res = auth_result(&r);
            if res.get("error").is_some() {
                out.push(json!({"ev": "error", "error": res["error"]}));
            } else {
                out.push(json!({"ev": "result", "ok": res["ok"], "policy": res["policy"], "index": res["index"], "failed": res["failed"]}));
            }
            Ok(out)
        });
        match r {
            Ok(Ok(v)) => out.extend(v),
            Ok(Err(e)) => out.push(json!({"ev": "error", "error": e})),
            Err(p) => out.push(json!({"ev": "error", "error": format!("PANIC {p}")})),
        }
        out
    });
    let flat: Vec<Value> = rows.into_iter().flatten().collect();
    util::write_ndjson(output, &flat);
    println!("auth-record: {} events", flat.len());
}
