//! C19: replay of spec/CApi.tla scenarios on the real `extern "C"` functions of
//! biscuit-capi (linked as an rlib).  A panic inside an extern "C" function aborts the
//! process, so every scenario runs in a child process (`vh capi-child <json>`).
use crate::util;
use biscuit_auth::builder::{Algorithm, BlockBuilder};
use biscuit_auth::datalog::SymbolTable;
use biscuit_auth::{Biscuit, KeyPair};
use biscuit_capi as c;
use rand::rngs::StdRng;
use rand::SeedableRng;
use serde_json::{json, Value};
use std::ffi::{CStr, CString};

const SEED1: [u8; 32] = [1; 32];
const SEED2: [u8; 32] = [2; 32];
const SEED3: [u8; 32] = [3; 32];
const CANARY: u8 = 0xA5;

fn calg(a: &str) -> c::SignatureAlgorithm {
    if a == "p256" { c::SignatureAlgorithm::Secp256r1 } else { c::SignatureAlgorithm::Ed25519 }
}
fn ralg(a: &str) -> Algorithm {
    if a == "p256" { Algorithm::Secp256r1 } else { Algorithm::Ed25519 }
}

struct RustSide {
    kp: KeyPair,
    token0: Biscuit,
    token: Biscuit,
    sealed: Biscuit,
}

fn rust_side(alg: &str, balg: &str) -> RustSide {
    let kp = KeyPair::new_with_rng(ralg(alg), &mut StdRng::from_seed(SEED1));
    let token0 = Biscuit::builder()
        .fact("right(\"file1\")").unwrap()
        .context("ctx0".to_string())
        .build_with_rng(&kp, SymbolTable::default(), &mut StdRng::from_seed(SEED2)).unwrap();
    let kp2 = KeyPair::new_with_rng(ralg(balg), &mut StdRng::from_seed(SEED3));
    let token = token0.append_with_keypair(&kp2, BlockBuilder::new().check("check if right(\"file1\")").unwrap()).unwrap();
    let sealed = token.seal().unwrap();
    RustSide { kp, token0, token, sealed }
}

/// the C API's kind for an error of the Rust API (the cases a scenario can meet)
fn kind_of(e: &biscuit_auth::error::Token) -> u32 {
    use biscuit_auth::error::Token;
    (match e {
        Token::AlreadySealed => c::ErrorKind::AlreadySealed,
        Token::AppendOnSealed => c::ErrorKind::AppendOnSealed,
        Token::Format(biscuit_auth::error::Format::InvalidBlockId(_)) => c::ErrorKind::FormatInvalidBlockId,
        _ => c::ErrorKind::InternalError,
    }) as u32
}

unsafe fn err_kind() -> u32 {
    c::error_kind() as u32
}

unsafe fn cstr(p: *const std::os::raw::c_char) -> Option<String> {
    if p.is_null() { None } else { Some(CStr::from_ptr(p).to_string_lossy().to_string()) }
}

/// executes one scenario; prints one JSON line per call (flushes, so that an abort leaves a prefix)
pub fn cmd_child(arg: &str) {
    let sc: Value = serde_json::from_str(arg).unwrap();
    let alg = sc["alg"].as_str().unwrap();
    let balg = sc["balg"].as_str().unwrap_or("ed");
    let rs = rust_side(alg, balg);
    unsafe {
        let kp = c::key_pair_new(SEED1.as_ptr(), 32, calg(alg)).expect("key_pair_new");
        let pubk = c::key_pair_public(Some(&kp)).expect("key_pair_public");
        let mut bb = c::biscuit_builder().expect("biscuit_builder");
        let f = CString::new("right(\"file1\")").unwrap();
        assert!(c::biscuit_builder_add_fact(Some(&mut bb), f.as_ptr()));
        let ctx = CString::new("ctx0").unwrap();
        assert!(c::biscuit_builder_set_context(Some(&mut bb), ctx.as_ptr()));
        let token0 = c::biscuit_builder_build(Some(&bb), Some(&kp), SEED2.as_ptr(), 32).expect("build");
        let mut blk = c::create_block();
        let chk = CString::new("check if right(\"file1\")").unwrap();
        assert!(c::block_builder_add_check(Some(&mut blk), chk.as_ptr()));
        let kp2 = c::key_pair_new(SEED3.as_ptr(), 32, calg(balg)).expect("kp2");
        let token = c::biscuit_append_block(Some(&token0), Some(&blk), Some(&kp2)).expect("append");
        // a sealed token as a C handle: the sealed serialization read back
        let sealed_bytes = rs.sealed.to_vec().unwrap();
        let stoken = c::biscuit_from(sealed_bytes.as_ptr(), sealed_bytes.len(), Some(&*pubk)).expect("biscuit_from(sealed)");
        println!("{}", json!({"setup": "ok", "err": err_kind()}));
        for call in sc["calls"].as_array().unwrap() {
            let name = call["name"].as_str().unwrap();
            let on_sealed = call["handle"] == "sealed";
            let live = call["handle"] == "live" || on_sealed;
            let idx = call["idx"].as_u64().unwrap() as u32;
            let th = if on_sealed { Some(&*stoken) } else if live { Some(&*token) } else { None };
            // the Rust object the handle stands for
            let rt: &Biscuit = if on_sealed { &rs.sealed } else { &rs.token };
            let mut problems: Vec<String> = Vec::new();
            // what the Rust operation reports when it fails, as the C API's error kind
            let mut want_kind: Option<u32> = None;
            let out: &str = match name {
                "serialize" | "serialize_sealed" => {
                    let sealed = name == "serialize_sealed";
                    let want = if sealed {
                        match rt.seal() {
                            Ok(t) => t.to_vec().unwrap(),
                            Err(e) => { want_kind = Some(kind_of(&e)); Vec::new() }
                        }
                    } else { rt.to_vec().unwrap() };
                    let size = if sealed { c::biscuit_sealed_size(th) } else { c::biscuit_serialized_size(th) };
                    // the caller allocates exactly what was announced; canaries around it
                    let mut buf = vec![CANARY; size + 64];
                    let written = if sealed { c::biscuit_serialize_sealed(th, buf.as_mut_ptr().add(32)) } else { c::biscuit_serialize(th, buf.as_mut_ptr().add(32)) };
                    if live {
                        if size != want.len() { problems.push(format!("size call announces {size}, the Rust operation yields {} bytes", want.len())); }
                        if written != size { problems.push(format!("serialize wrote {written} bytes, {size} announced")); }
                        if buf[..32].iter().any(|b| *b != CANARY) || buf[32 + size..].iter().any(|b| *b != CANARY) { problems.push("wrote outside the announced buffer".to_string()); }
                        if written == want.len() && buf[32..32 + written] != want[..] { problems.push("bytes differ from the Rust operation".to_string()); }
                    }
                    if written > 0 { "value" } else { "error" }
                }
                "block_count" => {
                    let n = c::biscuit_block_count(th);
                    if live && n != rt.block_count() { problems.push(format!("block count {n}")); }
                    if n > 0 { "value" } else { "error" }
                }
                "block_context" => {
                    let before = err_kind();
                    let p = c::biscuit_block_context(th, idx);
                    let got = cstr(p);
                    let want = rt.context().get(idx as usize).cloned();
                    match (&want, live) {
                        (Some(w), true) => { if &got != w { problems.push(format!("context {:?}, Rust gives {:?}", got, w)); } if got.is_some() || err_kind() == before { "value" } else { "error" } }
                        _ => if got.is_none() { "error" } else { "value" },
                    }
                }
                "print_block_source" => {
                    let p = c::biscuit_print_block_source(th, idx);
                    let got = cstr(p);
                    let want = if live { rt.print_block_source(idx as usize).ok() } else { None };
                    if live && got != want { problems.push(format!("source {:?}, Rust gives {:?}", got, want)); }
                    if got.is_some() { "value" } else { "error" }
                }
                "print" => {
                    let got = cstr(c::biscuit_print(th));
                    if live && got.as_deref() != Some(&rt.print()) { problems.push("print differs from Rust".to_string()); }
                    if got.is_some() { "value" } else { "error" }
                }
                "authorize_fail_policy" | "authorize_fail_nopolicy" => {
                    if !live {
                        if c::authorizer_authorize(None) { "value" } else { "error" }
                    } else {
                        // a token whose block check fails, an authorizer whose own check fails, a policy that matches or not
                        let pol = if name == "authorize_fail_policy" { "allow if true" } else { "allow if nope(1)" };
                        let mut blk = c::create_block();
                        let chk = CString::new("check if right(\"file2\")").unwrap();
                        assert!(c::block_builder_add_check(Some(&mut blk), chk.as_ptr()));
                        let kp3 = c::key_pair_new(SEED3.as_ptr(), 32, calg(balg)).expect("kp3");
                        let tf = c::biscuit_append_block(Some(&token0), Some(&blk), Some(&kp3)).expect("append failing block");
                        let mut ab = c::authorizer_builder().expect("authorizer_builder");
                        let ac = CString::new("check if nope(2)").unwrap();
                        assert!(c::authorizer_builder_add_check(Some(&mut ab), ac.as_ptr()));
                        let p = CString::new(pol).unwrap();
                        assert!(c::authorizer_builder_add_policy(Some(&mut ab), p.as_ptr()));
                        // the same through the Rust API (generous limits: only the error details are compared)
                        let kp3r = KeyPair::new_with_rng(ralg(balg), &mut StdRng::from_seed(SEED3));
                        let rtf = rs.token0.append_with_keypair(&kp3r, BlockBuilder::new().check("check if right(\"file2\")").unwrap()).unwrap();
                        let rerr = biscuit_auth::builder::AuthorizerBuilder::new().check("check if nope(2)").unwrap().policy(pol).unwrap()
                            .limits(crate::auth::big_limits()).build(&rtf).unwrap().authorize();
                        use biscuit_auth::error::{FailedCheck, Logic, Token};
                        let rchecks: Vec<FailedCheck> = match rerr {
                            Err(Token::FailedLogic(Logic::Unauthorized { checks, .. })) | Err(Token::FailedLogic(Logic::NoMatchingPolicy { checks })) => checks,
                            o => { problems.push(format!("the Rust operation gives {o:?}")); vec![] }
                        };
                        match c::authorizer_builder_build(Some(ab), &tf) {
                            Some(mut a) => {
                                let ok = c::authorizer_authorize(Some(&mut a));
                                let timed_out = err_kind() == c::ErrorKind::Timeout as u32;
                                if ok { problems.push("authorize succeeded, the Rust operation fails".to_string()); }
                                if !ok && !timed_out {
                                    let n = c::error_check_count();
                                    if n as usize != rchecks.len() { problems.push(format!("error_check_count {n}, the Rust error carries {}", rchecks.len())); }
                                    for (i, fc) in rchecks.iter().enumerate() {
                                        let (want_auth, want_block, want_id, want_rule) = match fc {
                                            FailedCheck::Block(b) => (false, b.block_id as u64, b.check_id as u64, b.rule.clone()),
                                            FailedCheck::Authorizer(a) => (true, u64::MAX, a.check_id as u64, a.rule.clone()),
                                        };
                                        let i = i as u64;
                                        if c::error_check_is_authorizer(i) != want_auth { problems.push(format!("error_check_is_authorizer({i}) differs from the Rust error")); }
                                        if !want_auth && c::error_check_block_id(i) != want_block { problems.push(format!("error_check_block_id({i}) = {}, the Rust error says {want_block}", c::error_check_block_id(i))); }
                                        if c::error_check_id(i) != want_id { problems.push(format!("error_check_id({i}) = {}, the Rust error says {want_id}", c::error_check_id(i))); }
                                        if cstr(c::error_check_rule(i)).as_deref() != Some(&want_rule) { problems.push(format!("error_check_rule({i}) differs from the Rust error")); }
                                    }
                                }
                                if ok { "value" } else { "error" }
                            }
                            None => { problems.push("authorizer_builder_build failed".to_string()); "error" }
                        }
                    }
                }
                "authorize" => {
                    if live {
                        let mut ab = c::authorizer_builder().expect("authorizer_builder");
                        let pol = CString::new("allow if true").unwrap();
                        assert!(c::authorizer_builder_add_policy(Some(&mut ab), pol.as_ptr()));
                        match c::authorizer_builder_build(Some(ab), th.unwrap()) {
                            Some(mut a) => {
                                let r = c::authorizer_authorize(Some(&mut a));
                                let want = biscuit_auth::builder::AuthorizerBuilder::new().policy("allow if true").unwrap()
                                    .limits(crate::auth::big_limits()).build(rt).unwrap().authorize().is_ok();
                                // (default limits of 1 ms in the C API may time out on a loaded machine: only a wrong success is a mismatch)
                                if r && !want { problems.push("authorize succeeded, Rust refuses".to_string()); }
                                "value"
                            }
                            None => "error",
                        }
                    } else if c::authorizer_authorize(None) { "value" } else { "error" }
                }
                "public_key_roundtrip" => {
                    let ph = if live { Some(&*pubk) } else { None };
                    let want = rs.kp.public().to_bytes();
                    // "expects a 32 byte buffer": canaries after the announced 32 bytes + what Rust needs
                    let mut buf = vec![CANARY; 32 + want.len().max(32) + 32];
                    let n = c::public_key_serialize(ph, buf.as_mut_ptr().add(32));
                    if live {
                        if n != want.len() { problems.push(format!("public_key_serialize wrote {n} bytes, the key has {}", want.len())); }
                        else if buf[32..32 + n] != want[..] { problems.push("public key bytes differ".to_string()); }
                        match c::public_key_deserialize(buf.as_mut_ptr().add(32), calg(alg)) {
                            Some(k2) => {
                                let mut b2 = vec![0u8; 64];
                                let n2 = c::public_key_serialize(Some(&k2), b2.as_mut_ptr());
                                if b2[..n2] != want[..] { problems.push("public key does not round-trip".to_string()); }
                            }
                            None => problems.push("public_key_deserialize refuses what public_key_serialize wrote".to_string()),
                        }
                    }
                    if n > 0 { "value" } else { "error" }
                }
                "key_pair_roundtrip" => {
                    let kh = if live { Some(&*kp) } else { None };
                    let mut buf = vec![CANARY; 96];
                    let n = c::key_pair_serialize(kh, buf.as_mut_ptr().add(32));
                    if live {
                        let want = rs.kp.private().to_bytes().to_vec();
                        if n != want.len() || buf[32..32 + n] != want[..] { problems.push("private key bytes differ".to_string()); }
                        match c::key_pair_deserialize(buf.as_mut_ptr().add(32), calg(alg)) {
                            Some(k2) => {
                                let mut b2 = vec![0u8; 64];
                                let m = c::key_pair_serialize(Some(&k2), b2.as_mut_ptr());
                                if m != want.len() || b2[..m] != want[..] { problems.push("key pair does not round-trip".to_string()); }
                            }
                            None => problems.push("key_pair_deserialize refuses what key_pair_serialize wrote".to_string()),
                        }
                    }
                    if n > 0 { "value" } else { "error" }
                }
                "from_bytes" => {
                    let bytes = rs.token.to_vec().unwrap();
                    let ph = if live { Some(&*pubk) } else { None };
                    match c::biscuit_from(bytes.as_ptr(), bytes.len(), ph) {
                        Some(t) => { if c::biscuit_block_count(Some(&t)) != 2 { problems.push("reloaded token has another block count".to_string()); } "value" }
                        None => "error",
                    }
                }
                "append_block" => {
                    let mut b3 = c::create_block();
                    let f3 = CString::new("extra(1)").unwrap();
                    assert!(c::block_builder_add_fact(Some(&mut b3), f3.as_ptr()));
                    let kp2r = KeyPair::new_with_rng(ralg(balg), &mut StdRng::from_seed(SEED3));
                    let rust = rt.append_with_keypair(&kp2r, BlockBuilder::new().fact("extra(1)").unwrap());
                    if let Err(e) = &rust { want_kind = Some(kind_of(e)); }
                    match c::biscuit_append_block(th, Some(&b3), Some(&kp2)) {
                        Some(t) => {
                            let want = match rust { Ok(t) => t.to_vec().unwrap(), Err(_) => { problems.push("append succeeded, the Rust operation fails".to_string()); Vec::new() } };
                            let size = c::biscuit_serialized_size(Some(&t));
                            let mut buf = vec![0u8; size];
                            let n = c::biscuit_serialize(Some(&t), buf.as_mut_ptr());
                            if buf[..n] != want[..] { problems.push("appended token differs from the Rust operation".to_string()); }
                            "value"
                        }
                        None => "error",
                    }
                }
                "authorizer_from_token" => match c::biscuit_authorizer(th) { Some(_) => "value", None => "error" },
                "builder_build" => {
                    let kh = if live { Some(&*kp) } else { None };
                    match c::biscuit_builder_build(Some(&bb), kh, SEED2.as_ptr(), 32) {
                        Some(t) => {
                            let size = c::biscuit_serialized_size(Some(&t));
                            let mut buf = vec![0u8; size];
                            let n = c::biscuit_serialize(Some(&t), buf.as_mut_ptr());
                            if buf[..n] != rs.token0.to_vec().unwrap()[..] { problems.push("built token differs from the Rust operation".to_string()); }
                            "value"
                        }
                        None => "error",
                    }
                }
                o => panic!("unknown call {o}"),
            };
            let kind = err_kind();
            let msg = cstr(c::error_message());
            // error details: the kind in the channel is the kind of the error the Rust operation returns
            if let (Some(w), true) = (want_kind, live) {
                if kind != w { problems.push(format!("the Rust operation fails with error kind {w}, the error channel holds {kind}")); }
            }
            // the C API cannot change the default 1 ms time limit: a Timeout under load is not a finding
            let timeout = name.starts_with("authorize") && (kind == c::ErrorKind::Timeout as u32 || msg.as_deref().map(|m| m.contains("imeout")).unwrap_or(false));
            println!("{}", json!({"name": name, "out": out, "err_kind": kind, "err_msg": msg, "problems": problems, "timeout": timeout}));
        }
    }
}

fn replay_case(idx: usize, case: &Value) -> Value {
    let exe = std::env::current_exe().unwrap();
    let arg = json!({"alg": case["alg"], "balg": case["balg"], "calls": case["calls"]}).to_string();
    let outp = std::process::Command::new(exe).arg("capi-child").arg(&arg).output();
    let mut problems: Vec<String> = Vec::new();
    match outp {
        Err(e) => problems.push(format!("cannot spawn child: {e}")),
        Ok(o) => {
            let lines: Vec<Value> = String::from_utf8_lossy(&o.stdout).lines().filter_map(|l| serde_json::from_str(l).ok()).collect();
            let calls = case["calls"].as_array().unwrap();
            let outs = case["outs"].as_array().unwrap();
            if lines.is_empty() {
                problems.push(format!("setup aborted: status {:?}", o.status));
            }
            let mut clock_noise = false;
            for (i, call) in calls.iter().enumerate() {
                let desc = format!("{}({},{})", call["name"].as_str().unwrap(), call["handle"].as_str().unwrap(), call["idx"]);
                match lines.get(i + 1) {
                    None => {
                        problems.push(format!("call {desc} ABORTED the process (status {:?})", o.status));
                        break;
                    }
                    Some(l) => {
                        for p in l["problems"].as_array().unwrap() {
                            problems.push(format!("call {desc}: {}", p.as_str().unwrap()));
                        }
                        let want_out = outs[i]["out"].as_str().unwrap();
                        if l["out"] != want_out {
                            problems.push(format!("call {desc}: returned {}, the spec says {}", l["out"], want_out));
                        }
                        let want_err = outs[i]["err"].as_str().unwrap();
                        let kind = l["err_kind"].as_u64().unwrap();
                        let ok = match want_err {
                            "none" => kind == 0,
                            "InvalidArgument" => kind == 1,
                            _ => kind > 1,
                        };
                        clock_noise |= kind == c::ErrorKind::Timeout as u64;
                        clock_noise |= l["timeout"].as_bool().unwrap_or(false);
                        if !ok && !clock_noise {
                            problems.push(format!("call {desc}: error channel holds kind {kind} ({}), the spec says {want_err}", l["err_msg"]));
                        }
                    }
                }
            }
        }
    }
    json!({"idx": idx, "ok": problems.is_empty(), "problems": problems})
}

pub fn cmd_replay(input: &str, output: &str) {
    let cases = util::read_ndjson(input);
    let rows = util::par_map(cases, || (), |_, i, case| replay_case(i, case));
    util::write_ndjson(output, &rows);
    let bad = rows.iter().filter(|r| !r["ok"].as_bool().unwrap()).count();
    println!("capi-replay: {} scenarios, {} disagreements", rows.len(), bad);
}
