//! Replay of spec/ChainMC.tla behaviours on the real library.
//!  * `chain-forged`: every adversary token exported by TLC is concretised to
//!    bytes (layout.rs + real keys) and offered to the four verification entry
//!    points; accept/reject must equal the spec's `Verify`.
//!  * `chain-honest`: every honest operation log is executed through the real
//!    API (verified and unverified paths) and the produced token must be
//!    byte-identical to the concretisation of the spec's token.
use crate::keys;
use crate::layout::Concretiser;
use crate::util;
use biscuit_auth::builder::BlockBuilder;
use biscuit_auth::datalog::SymbolTable;
use biscuit_auth::format::schema;
use biscuit_auth::format::SerializedBiscuit;
use biscuit_auth::{Biscuit, KeyPair, UnverifiedBiscuit};
use prost::Message;
use serde_json::{json, Value};
use std::collections::HashMap;

/// a payload whose block DECLARES a public key (a `trusting` scope): its bytes depend on the keys the token
/// already knows, so histories that use it are compared as decoded tokens, not byte for byte
pub fn contextual(id: &str) -> bool {
    id == "P7"
}

pub fn payload_code(id: &str) -> &'static str {
    static P7: std::sync::OnceLock<&'static str> = std::sync::OnceLock::new();
    match id {
        "P7" => P7.get_or_init(|| Box::leak(format!("check if right(1) trusting {};", keys::keypair("PK", "ed").public().print()).into_boxed_str())),
        "P1" => "right(1);",
        "P2" => "resource(2);",
        "P6" => "operation(null);",
        "P12" => "right(1); check if right(1);",
        "T1" => "right(3);",
        "T2" => "resource(4);",
        o => panic!("unknown payload {o}"),
    }
}

/// payload bytes as the real builders serialise them (opaque to the chain spec)
pub fn payload_table() -> HashMap<String, Vec<u8>> {
    let mut m = HashMap::new();
    let root = keys::keypair("scratch-root", "ed");
    let next = keys::keypair("scratch-next", "ed");
    for id in ["P1", "P2", "P6", "P12", "P7"] {
        let b = Biscuit::builder()
            .code(payload_code(id))
            .unwrap()
            .build_with_key_pair(&root, SymbolTable::new(), &next)
            .unwrap();
        let proto = schema::Biscuit::decode(&b.to_vec().unwrap()[..]).unwrap();
        m.insert(id.to_string(), proto.authority.block);
    }
    // Chain.tla `Split`: P12's bytes are P1's bytes followed by the chunk X2 (one more protobuf field)
    let (p1, p12) = (m["P1"].clone(), m["P12"].clone());
    assert!(p12.len() > p1.len() && p12[..p1.len()] == p1[..], "payload P12 does not extend payload P1");
    m.insert("X2".to_string(), p12[p1.len()..].to_vec());
    let base = Biscuit::builder()
        .build_with_key_pair(&root, SymbolTable::new(), &next)
        .unwrap();
    for id in ["T1", "T2"] {
        let req = base.third_party_request().unwrap();
        let blk = req
            .create_block(
                &keys::keypair("scratch-ext", "ed").private(),
                BlockBuilder::new().code(payload_code(id)).unwrap(),
            )
            .unwrap();
        let c = schema::ThirdPartyBlockContents::decode(&blk.serialize().unwrap()[..]).unwrap();
        m.insert(id.to_string(), c.payload);
    }
    m
}

fn pk_proto(k: &Value) -> schema::PublicKey {
    schema::PublicKey {
        algorithm: keys::alg_code(k["alg"].as_str().unwrap()),
        key: keys::public_of(k).to_bytes(),
    }
}

/// abstract token record -> wire message
pub fn concretise_token(c: &mut Concretiser, t: &Value) -> schema::Biscuit {
    let mut blocks: Vec<schema::SignedBlock> = Vec::new();
    for b in t["blocks"].as_array().unwrap() {
        let ext = b["ext"].as_array().unwrap();
        let ver = b["ver"].as_u64().unwrap() as u32;
        blocks.push(schema::SignedBlock {
            block: c.payload(b["payload"].as_str().unwrap()),
            next_key: pk_proto(&b["nk"]),
            signature: c.sig(&b["sig"]),
            external_signature: ext.first().map(|e| schema::ExternalSignature {
                signature: c.sig(&e["sig"]),
                public_key: pk_proto(&e["key"]),
            }),
            version: if ver > 0 { Some(ver) } else { None },
        });
    }
    let proof = &t["proof"];
    let content = match proof["kind"].as_str().unwrap() {
        "secret" => schema::proof::Content::NextSecret(
            keys::keypair_of(&proof["key"]).private().to_bytes().to_vec(),
        ),
        "seal" => schema::proof::Content::FinalSignature(c.sig(&proof["sig"][0])),
        o => panic!("proof kind {o}"),
    };
    let authority = blocks.remove(0);
    let rkid = t["rkid"].as_u64().unwrap();
    schema::Biscuit {
        root_key_id: if rkid == 1 { Some(c.hint) } else if rkid > 0 { Some(rkid as u32) } else { None },
        authority,
        blocks,
        proof: schema::Proof {
            content: Some(content),
        },
    }
}

pub fn token_bytes(c: &mut Concretiser, t: &Value) -> Vec<u8> {
    concretise_token(c, t).encode_to_vec()
}

fn rev_ids(c: &mut Concretiser, t: &Value) -> Vec<Vec<u8>> {
    t["blocks"]
        .as_array()
        .unwrap()
        .iter()
        .map(|b| c.sig(&b["sig"]))
        .collect()
}

/// The verifier's root key provider of the spec: prov[0] answers "no root key id", prov[1] answers id 1;
/// a NoKey entry (or any other id) means the provider knows no key.
fn provider(prov: &Value) -> impl Fn(Option<u32>) -> Result<biscuit_auth::PublicKey, biscuit_auth::error::Format> + Clone {
    let keys: Vec<Option<biscuit_auth::PublicKey>> = prov
        .as_array()
        .unwrap()
        .iter()
        .map(|k| if k["id"] == "none" { None } else { Some(keys::public_of(k)) })
        .collect();
    move |kid: Option<u32>| {
        let slot = match kid { None => 0usize, Some(n) => n as usize };
        keys.get(slot).cloned().flatten().ok_or(biscuit_auth::error::Format::UnknownPublicKey)
    }
}

/// The four ways a serialized token is admitted under a root key (or a root key provider).
pub fn admit<KP: biscuit_auth::RootKeyProvider + Clone>(bytes: &[u8], root: KP) -> Vec<(&'static str, Result<Option<Biscuit>, String>)> {
    let mut out = Vec::new();
    out.push((
        "container",
        util::catch(|| SerializedBiscuit::from_slice(bytes, root.clone()).map(|_| None).map_err(|e| format!("{e:?}")))
            .unwrap_or_else(|p| Err(format!("PANIC {p}"))),
    ));
    out.push((
        "biscuit",
        util::catch(|| Biscuit::from(bytes, root.clone()).map(Some).map_err(|e| format!("{e:?}")))
            .unwrap_or_else(|p| Err(format!("PANIC {p}"))),
    ));
    let b64 = base64::encode_config(bytes, base64::URL_SAFE);
    out.push((
        "base64",
        util::catch(|| Biscuit::from_base64(&b64, root.clone()).map(Some).map_err(|e| format!("{e:?}")))
            .unwrap_or_else(|p| Err(format!("PANIC {p}"))),
    ));
    out.push((
        "unverified",
        util::catch(|| {
            UnverifiedBiscuit::from(bytes)
                .map_err(|e| format!("{e:?}"))
                .and_then(|u| u.verify(root.clone()).map(Some).map_err(|e| format!("{e:?}")))
        })
        .unwrap_or_else(|p| Err(format!("PANIC {p}"))),
    ));
    // the deprecated entry points (Chain.tla modes "legacy" and "mixed")
    out.push((
        "legacy",
        util::catch(|| Biscuit::unsafe_deprecated_deserialize(bytes, root.clone()).map(Some).map_err(|e| format!("{e:?}")))
            .unwrap_or_else(|p| Err(format!("PANIC {p}"))),
    ));
    out.push((
        "mixed",
        util::catch(|| {
            UnverifiedBiscuit::unsafe_deprecated_deserialize(bytes)
                .map_err(|e| format!("{e:?}"))
                .and_then(|u| u.verify(root.clone()).map(Some).map_err(|e| format!("{e:?}")))
        })
        .unwrap_or_else(|p| Err(format!("PANIC {p}"))),
    ));
    out
}

/// replay one forged-token case; returns a verdict row
fn replay_forged(c: &mut Concretiser, idx: usize, case: &Value) -> Value {
    let forged = &case["forged"];
    let tok = &forged["tok"];
    let expect = case["accept"].as_bool().unwrap();
    let bytes = token_bytes(c, tok);
    let mut problems: Vec<String> = Vec::new();
    let mut panicked = false;
    let want_ids = rev_ids(c, tok);
    // the verifier's key provider of the case (older exports carry the root only)
    let admitted = if forged["prov"].is_array() {
        admit(&bytes, provider(&forged["prov"]))
    } else {
        admit(&bytes, keys::public_of(&forged["root"]))
    };
    for (path, r) in admitted {
        // the spec's verdict for the entry point's mode (exports without modes: the standard verdict)
        let expect = match path {
            "legacy" => case["accept_legacy"].as_bool().unwrap_or(expect),
            "mixed" => case["accept_mixed"].as_bool().unwrap_or(expect),
            _ => expect,
        };
        match r {
            Ok(b) => {
                if !expect {
                    problems.push(format!("{path}: accepted, spec rejects"));
                }
                if let Some(b) = b {
                    if b.revocation_identifiers() != want_ids {
                        problems.push(format!("{path}: revocation ids differ from the token's signatures"));
                    }
                    if b.block_count() != want_ids.len() {
                        problems.push(format!("{path}: block count {} != {}", b.block_count(), want_ids.len()));
                    }
                    let want_ext: Vec<Option<Vec<u8>>> = tok["blocks"]
                        .as_array()
                        .unwrap()
                        .iter()
                        .map(|bl| bl["ext"].as_array().unwrap().first().map(|e| keys::public_of(&e["key"]).to_bytes()))
                        .collect();
                    let got_ext: Vec<Option<Vec<u8>>> =
                        b.external_public_keys().iter().map(|k| k.map(|k| k.to_bytes())).collect();
                    if want_ext != got_ext {
                        problems.push(format!("{path}: external keys differ"));
                    }
                    // byte-exact re-serialisation of an accepted token
                    if b.to_vec().ok().as_deref() != Some(&bytes[..]) {
                        problems.push(format!("{path}: re-serialisation differs"));
                    }
                }
            }
            Err(e) => {
                if e.starts_with("PANIC") {
                    panicked = true;
                    problems.push(format!("{path}: {e}"));
                } else if expect {
                    problems.push(format!("{path}: rejected ({e}), spec accepts"));
                }
            }
        }
    }
    json!({
        "idx": idx,
        "ok": problems.is_empty(),
        "panic": panicked,
        "expect_accept": expect,
        "authentic": case["authentic"],
        "weakness": case["weakness"],
        "mut": forged["mut"],
        "problems": problems,
        "token_hex": if problems.is_empty() { Value::Null } else { json!(hex::encode(&bytes)) },
    })
}

pub fn cmd_forged(input: &str, output: &str) {
    use std::io::{BufRead, Write};
    util::quiet_panics();
    let table = payload_table();
    // exports can be several GB: the cases are streamed in batches
    let f = std::fs::File::open(input).unwrap_or_else(|e| panic!("open {input}: {e}"));
    let mut out = std::io::BufWriter::new(std::fs::File::create(output).unwrap());
    let mut lines = std::io::BufReader::new(f).lines();
    let (mut total, mut bad) = (0usize, 0usize);
    loop {
        let mut batch: Vec<Value> = Vec::new();
        for line in lines.by_ref().take(100_000) {
            let line = line.unwrap();
            if !line.trim().is_empty() {
                batch.push(serde_json::from_str(line.trim()).unwrap_or_else(|e| panic!("bad json: {e}")));
            }
        }
        if batch.is_empty() {
            break;
        }
        let base = total;
        let t = table.clone();
        let rows = util::par_map(batch, move || Concretiser::new(t.clone()), move |c, i, case| replay_forged(c, base + i, case));
        for r in &rows {
            if !r["ok"].as_bool().unwrap() {
                bad += 1;
            }
            writeln!(out, "{}", r).unwrap();
        }
        total += rows.len();
    }
    println!("chain-forged: {} cases, {} disagreements", total, bad);
}

// ---------------------------------------------------------------- honest logs

pub enum Tok {
    V(Biscuit),
    U(UnverifiedBiscuit),
}

impl Tok {
    pub fn to_vec(&self) -> Vec<u8> {
        match self {
            Tok::V(b) => b.to_vec().unwrap(),
            Tok::U(b) => b.to_vec().unwrap(),
        }
    }
}

fn builder_for(p: &str) -> BlockBuilder {
    BlockBuilder::new().code(payload_code(p)).unwrap()
}

/// run one honest op through the real API. `unverified`: use UnverifiedBiscuit for this step
fn run_op(op: &Value, toks: &[Tok], unverified: bool, hint: u32) -> Result<Tok, String> {
    let name = op["op"].as_str().unwrap();
    let from = op["from"].as_u64().unwrap() as usize;
    let e = |e: biscuit_auth::error::Token| format!("{e:?}");
    if name == "build" {
        let root = keys::keypair_of(&op["root"]);
        let nk = keys::keypair_of(&op["nk"]);
        let mut b = Biscuit::builder().code(payload_code(op["p"].as_str().unwrap())).map_err(e)?;
        if op["rkid"].as_u64().unwrap() > 0 {
            let k = op["rkid"].as_u64().unwrap() as u32;
            b = b.root_key_id(if k == 1 { hint } else { k });
        }
        return b.build_with_key_pair(&root, SymbolTable::new(), &nk).map(Tok::V).map_err(e);
    }
    let src = &toks[from - 1];
    // choose API path: re-load the source as an UnverifiedBiscuit when asked
    let src_u: Option<UnverifiedBiscuit> = if unverified {
        Some(UnverifiedBiscuit::from(src.to_vec()).map_err(e)?)
    } else {
        match src {
            Tok::U(u) => Some(u.clone()),
            Tok::V(_) => None,
        }
    };
    match name {
        "append" => {
            let nk = keys::keypair_of(&op["nk"]);
            let bb = builder_for(op["p"].as_str().unwrap());
            match (&src_u, src) {
                (Some(u), _) => u.append_with_keypair(&nk, bb).map(Tok::U).map_err(e),
                (None, Tok::V(b)) => b.append_with_keypair(&nk, bb).map(Tok::V).map_err(e),
                _ => unreachable!(),
            }
        }
        "append3p" => {
            let nk = keys::keypair_of(&op["nk"]);
            let ek = keys::keypair_of(&op["ek"]);
            let bb = builder_for(op["p"].as_str().unwrap());
            match (&src_u, src) {
                (Some(u), _) => {
                    let req = u.third_party_request().map_err(e)?;
                    // the request travels as bytes
                    let req = biscuit_auth::ThirdPartyRequest::deserialize(&req.serialize().map_err(e)?).map_err(e)?;
                    let blk = req.create_block(&ek.private(), bb).map_err(e)?;
                    u.append_third_party_with_keypair(&blk.serialize().map_err(e)?, nk)
                        .map(Tok::U)
                        .map_err(e)
                }
                (None, Tok::V(b)) => {
                    let req = b.third_party_request().map_err(e)?;
                    let req = biscuit_auth::ThirdPartyRequest::deserialize(&req.serialize().map_err(e)?).map_err(e)?;
                    let blk = req.create_block(&ek.private(), bb).map_err(e)?;
                    b.append_third_party_with_keypair(ek.public(), blk, nk).map(Tok::V).map_err(e)
                }
                _ => unreachable!(),
            }
        }
        // the first step of the third-party protocol alone
        "request" => match (&src_u, src) {
            (Some(u), _) => u.third_party_request().map_err(e).and_then(|_| Err::<Tok, String>("REQUEST-GRANTED".to_string())),
            (None, Tok::V(b)) => b.third_party_request().map_err(e).and_then(|_| Err::<Tok, String>("REQUEST-GRANTED".to_string())),
            _ => unreachable!(),
        },
        "seal" => match (&src_u, src) {
            (Some(u), _) => u.seal().map(Tok::U).map_err(e),
            (None, Tok::V(b)) => b.seal().map(Tok::V).map_err(e),
            _ => unreachable!(),
        },
        o => Err(format!("unknown op {o}")),
    }
}

fn replay_honest(c: &mut Concretiser, idx: usize, case: &Value) -> Value {
    let log = case["log"].as_array().unwrap();
    let spec_toks = case["toks"].as_array().unwrap();
    let mut problems: Vec<String> = Vec::new();
    // path mask: bit i set = step i goes through the UnverifiedBiscuit API
    let nmasks = 1usize << log.len().saturating_sub(1).min(4);
    let mut checked = 0usize;
    // histories with a payload that declares a public key: block bytes depend on what earlier blocks declared
    let byte_exact = !log.iter().any(|op| op["p"].as_str().map(contextual).unwrap_or(false));
    // a history whose token carries a root key id hint is replayed with the id 1 and with the id 0
    let hints: Vec<u32> = if log.iter().any(|op| op["rkid"].as_u64() == Some(1)) { vec![1, 0] } else { vec![1] };
    for (mask, hint) in (0..nmasks).flat_map(|m| hints.iter().map(move |h| (m, *h))) {
        c.hint = hint;
        let mut real: Vec<Tok> = Vec::new();
        for (i, op) in log.iter().enumerate() {
            let unv = i > 0 && (mask >> (i - 1)) & 1 == 1;
            let r = util::catch(|| run_op(op, &real, unv, hint)).unwrap_or_else(|p| Err(format!("PANIC {p}")));
            match r {
                Ok(t) => {
                    let bytes = t.to_vec();
                    let want = token_bytes(c, &spec_toks[i]["tok"]);
                    if byte_exact && bytes != want {
                        problems.push(format!(
                            "mask {mask} step {i} ({}): API token differs from the spec token (real {} spec {})",
                            op["op"], hex::encode(&bytes), hex::encode(&want)
                        ));
                    }
                    // the unverified view exposes the same revocation identifiers and external keys as the spec token
                    match UnverifiedBiscuit::from(&bytes) {
                        Ok(u) => {
                            if byte_exact && u.revocation_identifiers() != rev_ids(c, &spec_toks[i]["tok"]) {
                                problems.push(format!("mask {mask} step {i}: UnverifiedBiscuit::revocation_identifiers differ from the block signatures"));
                            }
                        }
                        Err(e) => problems.push(format!("mask {mask} step {i}: UnverifiedBiscuit::from refuses an honest token: {e:?}")),
                    }
                    // every honest token must be admitted under its root by all entry points, byte exact
                    let root = keys::public_of(&spec_toks[i]["root"]);
                    for (path, r) in admit(&bytes, root) {
                        match r {
                            Ok(Some(b)) => {
                                if b.to_vec().unwrap() != bytes {
                                    problems.push(format!("mask {mask} step {i} {path}: re-serialisation differs"));
                                }
                                let rk = spec_toks[i]["tok"]["rkid"].as_u64().unwrap();
                                let want_rk = if rk == 1 { Some(hint) } else if rk > 0 { Some(rk as u32) } else { None };
                                if b.root_key_id() != want_rk {
                                    problems.push(format!("mask {mask} step {i} {path}: root key id {:?} != {:?}", b.root_key_id(), want_rk));
                                }
                                if b.block_count() != spec_toks[i]["tok"]["blocks"].as_array().unwrap().len() {
                                    problems.push(format!("mask {mask} step {i} {path}: block count"));
                                }
                                for (j, bl) in spec_toks[i]["tok"]["blocks"].as_array().unwrap().iter().enumerate() {
                                    let src = b.print_block_source(j).unwrap_or_else(|e| format!("ERR {e:?}"));
                                    let code = payload_code(bl["payload"].as_str().unwrap());
                                    if src.trim() != code.trim() {
                                        problems.push(format!("mask {mask} step {i} {path}: block {j} source {src:?} != {code:?}"));
                                    }
                                }
                            }
                            Ok(None) => {}
                            Err(e) => problems.push(format!("mask {mask} step {i} {path}: honest token refused: {e}")),
                        }
                    }
                    checked += 1;
                    real.push(t);
                }
                Err(e) => {
                    problems.push(format!("mask {mask} step {i} ({}): API refused an operation the spec allows: {e}", op["op"]));
                    break;
                }
            }
        }
        // operations on sealed tokens must be refused (C08), on both API paths
        for (i, t) in real.iter().enumerate() {
            if spec_toks[i]["tok"]["proof"]["kind"] == "seal" {
                // the sealed token keeps blocks, revocation ids and authorises like its source (C08)
                let src = log[i]["from"].as_u64().unwrap() as usize - 1;
                let root = keys::public_of(&spec_toks[i]["root"]);
                let a = Biscuit::from(real[src].to_vec(), root);
                let b = Biscuit::from(t.to_vec(), root);
                match (a, b) {
                    (Ok(a), Ok(b)) => {
                        if a.revocation_identifiers() != b.revocation_identifiers() {
                            problems.push(format!("mask {mask}: sealing changed the revocation identifiers"));
                        }
                        if a.print() != b.print() {
                            problems.push(format!("mask {mask}: sealing changed the printed token"));
                        }
                        for az in ["allow if right(1);", "allow if operation(null); deny if true;", "check if resource(2); allow if true;", "allow if right(3) trusting ed25519/0000000000000000000000000000000000000000000000000000000000000000;"] {
                            let ra = a.authorizer().and_then(|_| biscuit_auth::builder::AuthorizerBuilder::new().code(az)?.limits(crate::auth::big_limits()).build(&a)).and_then(|mut z| z.authorize());
                            let rb = b.authorizer().and_then(|_| biscuit_auth::builder::AuthorizerBuilder::new().code(az)?.limits(crate::auth::big_limits()).build(&b)).and_then(|mut z| z.authorize());
                            if format!("{ra:?}") != format!("{rb:?}") {
                                problems.push(format!("mask {mask}: sealed token authorises differently under {az:?}: {ra:?} vs {rb:?}"));
                            }
                        }
                    }
                    _ => problems.push(format!("mask {mask}: sealed token or its source not admitted")),
                }
                for unv in [false, true] {
                    for name in ["append", "append3p", "request", "seal"] {
                        let op = json!({"op": name, "from": i + 1, "nk": {"id": "KX", "alg": "ed"}, "ek": {"id": "E", "alg": "ed"}, "p": if name == "append3p" {"T1"} else {"P1"}});
                        let r = util::catch(|| run_op(&op, &real, unv, hint)).unwrap_or_else(|p| Err(format!("PANIC {p}")));
                        match r {
                            Ok(_) => problems.push(format!("mask {mask}: {name} on sealed token {i} (unverified={unv}) succeeded")),
                            Err(e) if e.starts_with("PANIC") => problems.push(format!("mask {mask}: {name} on sealed token {i}: {e}")),
                            Err(e) if e == "REQUEST-GRANTED" => problems.push(format!("mask {mask}: third-party request on sealed token {i} (unverified={unv}) succeeded")),
                            Err(_) => {}
                        }
                    }
                }
                let _ = t;
            }
        }
    }
    json!({"idx": idx, "ok": problems.is_empty(), "steps_checked": checked, "problems": problems, "log": case["log"]})
}

pub fn cmd_honest(input: &str, output: &str) {
    util::quiet_panics();
    let cases = util::read_ndjson(input);
    let table = payload_table();
    let rows = util::par_map(
        cases,
        move || Concretiser::new(table.clone()),
        |c, i, case| replay_honest(c, i, case),
    );
    util::write_ndjson(output, &rows);
    let bad = rows.iter().filter(|r| !r["ok"].as_bool().unwrap()).count();
    println!("chain-honest: {} cases, {} disagreements", rows.len(), bad);
}

#[allow(dead_code)]
pub fn keypair_dummy() -> KeyPair {
    keys::keypair("x", "ed")
}

/// C15 uniqueness on the real code: independently minted tokens with identical
/// content never share a revocation identifier.
pub fn cmd_unique(n: usize, output: &str) {
    use std::collections::HashSet;
    let mut seen: HashSet<Vec<u8>> = HashSet::new();
    let mut dup = 0usize;
    let mut total = 0usize;
    for alg in ["ed", "p256"] {
        let root = keys::keypair("R", alg);
        for _ in 0..n {
            let b = Biscuit::builder().code("right(1);").unwrap().build(&root).unwrap();
            let b2 = b.append(BlockBuilder::new().code("right(1);").unwrap()).unwrap();
            let b3 = b.append(BlockBuilder::new().code("right(1);").unwrap()).unwrap();
            for id in b2.revocation_identifiers().into_iter().chain(b3.revocation_identifiers().into_iter().skip(1)) {
                total += 1;
                if !seen.insert(id) {
                    dup += 1;
                }
            }
        }
    }
    std::fs::write(output, json!({"ids": total, "duplicates": dup}).to_string()).unwrap();
    println!("chain-unique: {total} ids, {dup} duplicates");
}

/// run a whole honest operation log through the (verified) API
pub fn run_log(log: &[Value]) -> Result<Vec<Tok>, String> {
    let mut toks: Vec<Tok> = Vec::new();
    for op in log {
        let t = run_op(op, &toks, false, 1)?;
        toks.push(t);
    }
    Ok(toks)
}
