//! impl -> spec: records runs of the real token API as NDJSON traces whose
//! tokens are PROJECTED to the abstract records of spec/Chain.tla.
use crate::chain::token_bytes;
use crate::keys;
use crate::layout::Concretiser;
use crate::util;
use biscuit_auth::builder::BlockBuilder;
use biscuit_auth::datalog::SymbolTable;
use biscuit_auth::format::schema;
use biscuit_auth::{Biscuit, PublicKey, UnverifiedBiscuit};
use prost::Message;
use rand::rngs::StdRng;
use rand::{Rng, SeedableRng};
use serde_json::{json, Value};
use std::collections::HashMap;

const CODES: &[&str] = &[
    "right(1);",
    "resource(\"file1\"); right(\"file1\", \"read\");",
    "check if resource($r), right($r, \"read\");",
    "user(\"alice\"); check if time($t), $t < 2030-01-01T00:00:00Z;",
    "operation(null);",
    "check all operation($o), [\"read\", \"write\"].contains($o);",
    "owner(\"alice\", \"file1\"); can($u, $f) <- owner($u, $f);",
    "reject if admin(true);",
    "check if group(\"g1\") trusting previous;",
    "x({\"a\": 1});",
    "",
];

pub struct Projector {
    pub c: Concretiser,
    pub keys: HashMap<Vec<u8>, Value>, // public key bytes -> key record
    pub key_list: Vec<Value>,
    pub payload_ids: HashMap<Vec<u8>, String>,
    pub payload_ver: HashMap<String, u32>,
    pub tag: String,
}

impl Projector {
    pub fn new() -> Self {
        Projector {
            c: Concretiser::new(HashMap::new()),
            keys: HashMap::new(),
            key_list: Vec::new(),
            payload_ids: HashMap::new(),
            payload_ver: HashMap::new(),
            tag: String::new(),
        }
    }

    pub fn add_key(&mut self, id: &str, alg: &str) -> Value {
        let v = json!({"id": id, "alg": alg});
        let pk = keys::public_of(&v).to_bytes();
        if !self.keys.contains_key(&pk) {
            self.keys.insert(pk, v.clone());
            self.key_list.push(v.clone());
        }
        v
    }

    fn key_of(&self, pk: &schema::PublicKey) -> Value {
        // a key record stands for (algorithm, bytes): the algorithm tag on the wire must be the key's
        self.keys
            .get(&pk.key)
            .filter(|k| keys::alg_code(k["alg"].as_str().unwrap()) == pk.algorithm)
            .cloned()
            // a key nobody declared: it stands for its own wire form (layout.rs understands "raw:<algorithm tag>")
            .unwrap_or_else(|| json!({"id": format!("unknown:{}", hex::encode(&pk.key)), "alg": format!("raw:{}", pk.algorithm)}))
    }

    fn payload_id(&mut self, bytes: &[u8]) -> String {
        if let Some(id) = self.payload_ids.get(bytes) {
            return id.clone();
        }
        let id = format!("Q{}_{}", self.tag, self.payload_ids.len() + 1);
        let ver = schema::Block::decode(bytes).ok().and_then(|b| b.version).unwrap_or(0);
        self.payload_ids.insert(bytes.to_vec(), id.clone());
        self.payload_ver.insert(id.clone(), ver);
        self.c.payloads.insert(id.clone(), bytes.to_vec());
        id
    }

    /// find (signer, message) under which `sig` verifies (verification by the
    /// underlying primitives, not by biscuit-auth)
    fn project_sig(&mut self, sig: &[u8], msgs: &[Value]) -> Value {
        for m in msgs {
            let bytes = self.c.msg(m);
            for k in self.key_list.clone() {
                let alg = k["alg"].as_str().unwrap();
                let pk = keys::public_of(&k).to_bytes();
                if raw_verify(alg, &pk, &bytes, sig) {
                    let det = keys::keypair_of(&k).sign(&bytes).unwrap().to_bytes().to_vec();
                    let form = if det == sig { 0 } else { 1 };
                    return json!({"signer": k, "msg": m, "form": form});
                }
            }
        }
        let u = json!({"signer": {"id": "unknown", "alg": "none"}, "msg": msgs[0], "form": 0});
        // the projected value stands for exactly these bytes
        self.c.sig_cache.insert(u.to_string(), sig.to_vec());
        u
    }

    pub fn project(&mut self, bytes: &[u8]) -> Value {
        let t = schema::Biscuit::decode(bytes).expect("decode own token");
        let mut blocks: Vec<Value> = Vec::new();
        let mut all = vec![t.authority.clone()];
        all.extend(t.blocks.iter().cloned());
        let mut prev: Vec<Value> = Vec::new();
        for b in &all {
            let p = self.payload_id(&b.block);
            let nk = self.key_of(&b.next_key);
            let ver = b.version.unwrap_or(0) as u64;
            let ext: Vec<Value> = match &b.external_signature {
                None => vec![],
                Some(e) => {
                    let m = json!({"tag": "ext", "ver": 1, "payload": p, "nk": {"id": "none", "alg": "none"}, "prev": prev, "ext": [], "body": []});
                    let s = self.project_sig(&e.signature, &[m]);
                    vec![json!({"key": self.key_of(&e.public_key), "sig": s})]
                }
            };
            let extsig: Vec<Value> = ext.iter().map(|e| e["sig"].clone()).collect();
            // v0: the flat body (Chain.tla V0Body); v1: delimited fields
            let mut body = vec![json!({"part": p})];
            body.extend(extsig.iter().map(|s| json!({"sig": s})));
            let m0 = json!({"tag": "v0", "ver": 0, "payload": "-", "nk": nk, "prev": [], "ext": [], "body": body});
            let m1 = json!({"tag": "v1", "ver": 1, "payload": p, "nk": nk, "prev": prev, "ext": extsig, "body": []});
            let cands = if ver == 0 { vec![m0, m1] } else { vec![m1, m0] };
            let s = self.project_sig(&b.signature, &cands);
            prev = vec![s.clone()];
            blocks.push(json!({"payload": p, "nk": nk, "sig": s, "ext": ext, "ver": ver}));
        }
        let proof = match &t.proof.content {
            Some(schema::proof::Content::NextSecret(sk)) => {
                // which known key has this secret?
                let mut found = json!({"id": "unknown", "alg": "none"});
                for k in &self.key_list {
                    if keys::keypair_of(k).private().to_bytes().to_vec() == *sk {
                        found = k.clone();
                    }
                }
                json!({"kind": "secret", "key": found, "sig": []})
            }
            Some(schema::proof::Content::FinalSignature(sg)) => {
                let last = blocks.last().unwrap();
                let m = json!({"tag": "seal", "ver": 0, "payload": last["payload"], "nk": last["nk"], "prev": [last["sig"]], "ext": [], "body": []});
                let s = self.project_sig(sg, &[m]);
                json!({"kind": "seal", "key": {"id": "none", "alg": "none"}, "sig": [s]})
            }
            None => json!({"kind": "none", "key": {"id": "none", "alg": "none"}, "sig": []}),
        };
        json!({"rkid": t.root_key_id.unwrap_or(0), "blocks": blocks, "proof": proof})
    }
}

/// signature verification with the primitives themselves (ed25519-dalek strict / p256 ECDSA over DER)
pub fn raw_verify(alg: &str, pk: &[u8], msg: &[u8], sig: &[u8]) -> bool {
    match alg {
        "ed" => {
            let Ok(pkb): Result<[u8; 32], _> = pk.try_into() else { return false };
            let Ok(vk) = ed25519_dalek::VerifyingKey::from_bytes(&pkb) else { return false };
            let Ok(sb): Result<[u8; 64], _> = sig.try_into() else { return false };
            vk.verify_strict(msg, &ed25519_dalek::Signature::from_bytes(&sb)).is_ok()
        }
        "p256" => {
            use p256::ecdsa::signature::Verifier;
            let Ok(vk) = p256::ecdsa::VerifyingKey::from_sec1_bytes(pk) else { return false };
            let Ok(s) = p256::ecdsa::Signature::from_der(sig) else { return false };
            vk.verify(msg, &s).is_ok()
        }
        _ => false,
    }
}

// ------------------------------------------------------------------ recorder

enum Tok {
    V(Biscuit),
    U(UnverifiedBiscuit),
}
impl Tok {
    fn to_vec(&self) -> Vec<u8> {
        match self {
            Tok::V(b) => b.to_vec().unwrap(),
            Tok::U(b) => b.to_vec().unwrap(),
        }
    }
    fn as_unverified(&self) -> UnverifiedBiscuit {
        match self {
            Tok::U(u) => u.clone(),
            Tok::V(b) => UnverifiedBiscuit::from(b.to_vec().unwrap()).unwrap(),
        }
    }
}

struct Run {
    p: Projector,
    toks: Vec<(Tok, Value)>, // real token + root key record
    events: Vec<Value>,
    nkeys: usize,
    run: usize,
}

impl Run {
    fn fresh(&mut self, rng: &mut StdRng, allow_p256: bool) -> Value {
        self.nkeys += 1;
        let alg = if allow_p256 && rng.gen_range(0..3) == 0 { "p256" } else { "ed" };
        let id = format!("k{}_{}", self.run, self.nkeys);
        self.p.add_key(&id, alg)
    }

    fn produced(&mut self, ev: &str, mut fields: Value, t: Tok, root: Value) {
        let bytes = t.to_vec();
        let tok = self.p.project(&bytes);
        // what the API reports as revocation identifiers, through the verified and the unverified view of the
        // same bytes: j = the signature of block j, 100 + j = the external signature of block j, 0 = something else
        let wire = schema::Biscuit::decode(&bytes[..]).expect("decode own token");
        let mut sigs: Vec<(Vec<u8>, Option<Vec<u8>>)> = vec![(wire.authority.signature.clone(), None)];
        for b in &wire.blocks {
            sigs.push((b.signature.clone(), b.external_signature.as_ref().map(|e| e.signature.clone())));
        }
        let label = |id: &Vec<u8>| -> u64 {
            for (j, (s, e)) in sigs.iter().enumerate() {
                if s == id { return j as u64 + 1; }
                if e.as_ref() == Some(id) { return 100 + j as u64 + 1; }
            }
            0
        };
        let rev_u: Vec<u64> = UnverifiedBiscuit::from(&bytes).map(|u| u.revocation_identifiers().iter().map(|x| label(x)).collect()).unwrap_or_default();
        let rev_v: Vec<u64> = Biscuit::from(&bytes, keys::public_of(&root)).map(|b| b.revocation_identifiers().iter().map(|x| label(x)).collect()).unwrap_or_default();
        let rev_t: Vec<u64> = match &t { Tok::V(b) => b.revocation_identifiers().iter().map(|x| label(x)).collect(), Tok::U(u) => u.revocation_identifiers().iter().map(|x| label(x)).collect() };
        fields["rev_u"] = json!(rev_u);
        fields["rev_v"] = json!(rev_v);
        fields["rev_t"] = json!(rev_t);
        // the payload introduced by this op is the last block's
        if ev != "seal" {
            let pid = tok["blocks"].as_array().unwrap().last().unwrap()["payload"].as_str().unwrap().to_string();
            fields["p"] = json!(pid);
            fields["pv"] = json!(self.p.payload_ver[&pid]);
        }
        fields["ev"] = json!(ev);
        fields["tok"] = tok;
        self.events.push(fields);
        self.toks.push((t, root));
    }
}

/// a block content of the pool, or (one time in six) a check whose scope names a public key, so that the
/// token's key table grows along the run
fn pick_code(rng: &mut StdRng) -> String {
    if rng.gen_range(0..6) == 0 {
        let k = keys::keypair(if rng.gen_bool(0.5) { "PK" } else { "PK2" }, if rng.gen_bool(0.5) { "ed" } else { "p256" }).public().print();
        return format!("check if right(1) trusting {k};");
    }
    CODES[rng.gen_range(0..CODES.len())].to_string()
}

fn builder(rng: &mut StdRng) -> BlockBuilder {
    let code = pick_code(rng);
    BlockBuilder::new().code(&code).expect("code pool parses")
}

pub fn record_run(run: usize, seed: u64) -> (Vec<Value>, HashMap<String, u32>) {
    let mut rng = StdRng::seed_from_u64(seed.wrapping_mul(1_000_003).wrapping_add(run as u64));
    let mut pj = Projector::new();
    pj.tag = format!("{run}");
    let mut r = Run { p: pj, toks: vec![], events: vec![json!({"ev": "reset"})], nkeys: 0, run };
    let nops = rng.gen_range(2..9);
    let p256_ok = rng.gen_bool(0.6);
    let mut nroots = 0;
    for _ in 0..nops {
        let choice = if r.toks.is_empty() { 0 } else { rng.gen_range(0..100) };
        if choice < 8 {
            // build
            nroots += 1;
            let ralg = if p256_ok && rng.gen_range(0..3) == 0 { "p256" } else { "ed" };
            let root = r.p.add_key(&format!("root{}_{}", run, nroots), ralg);
            let nk = r.fresh(&mut rng, p256_ok);
            let code = pick_code(&mut rng);
            let mut b = Biscuit::builder().code(&code).unwrap();
            let rkid = if rng.gen_bool(0.3) { rng.gen_range(1..5u32) } else { 0 };
            if rkid > 0 {
                b = b.root_key_id(rkid);
            }
            let t = b
                .build_with_key_pair(&keys::keypair_of(&root), SymbolTable::new(), &keys::keypair_of(&nk))
                .expect("build");
            r.produced("build", json!({"root": root, "nk": nk, "rkid": rkid}), Tok::V(t), root.clone());
            continue;
        }
        let from = rng.gen_range(0..r.toks.len());
        let root = r.toks[from].1.clone();
        let unv = rng.gen_bool(0.4);
        if choice < 45 {
            let nk = r.fresh(&mut rng, p256_ok);
            let bb = builder(&mut rng);
            let res = if unv {
                r.toks[from].0.as_unverified().append_with_keypair(&keys::keypair_of(&nk), bb).map(Tok::U)
            } else {
                match &r.toks[from].0 {
                    Tok::V(b) => b.append_with_keypair(&keys::keypair_of(&nk), bb).map(Tok::V),
                    Tok::U(u) => u.append_with_keypair(&keys::keypair_of(&nk), bb).map(Tok::U),
                }
            };
            match res {
                Ok(t) => r.produced("append", json!({"from": from + 1, "nk": nk}), t, root),
                Err(_) => r.events.push(json!({"ev": "refused", "op": "append", "from": from + 1})),
            }
        } else if choice < 65 {
            let nk = r.fresh(&mut rng, p256_ok);
            let ek = r.fresh(&mut rng, true);
            let bb = builder(&mut rng);
            let ekp = keys::keypair_of(&ek);
            let res: Result<Tok, biscuit_auth::error::Token> = (|| {
                if unv {
                    let u = r.toks[from].0.as_unverified();
                    let req = u.third_party_request()?;
                    let blk = req.create_block(&ekp.private(), bb)?;
                    Ok(Tok::U(u.append_third_party_with_keypair(&blk.serialize()?, keys::keypair_of(&nk))?))
                } else {
                    match &r.toks[from].0 {
                        Tok::V(b) => {
                            let req = b.third_party_request()?;
                            let blk = req.create_block(&ekp.private(), bb)?;
                            Ok(Tok::V(b.append_third_party_with_keypair(ekp.public(), blk, keys::keypair_of(&nk))?))
                        }
                        Tok::U(u) => {
                            let req = u.third_party_request()?;
                            let blk = req.create_block(&ekp.private(), bb)?;
                            Ok(Tok::U(u.append_third_party_with_keypair(&blk.serialize()?, keys::keypair_of(&nk))?))
                        }
                    }
                }
            })();
            match res {
                Ok(t) => r.produced("append3p", json!({"from": from + 1, "nk": nk, "ek": ek}), t, root),
                Err(_) => r.events.push(json!({"ev": "refused", "op": "append3p", "from": from + 1})),
            }
        } else if choice < 70 {
            // the request step of the third-party protocol alone
            let res = if unv { r.toks[from].0.as_unverified().third_party_request().map(|_| ()) } else {
                match &r.toks[from].0 {
                    Tok::V(b) => b.third_party_request().map(|_| ()),
                    Tok::U(u) => u.third_party_request().map(|_| ()),
                }
            };
            match res {
                Ok(()) => r.events.push(json!({"ev": "request", "from": from + 1})),
                Err(_) => r.events.push(json!({"ev": "refused", "op": "request", "from": from + 1})),
            }
        } else if choice < 82 {
            let res = match &r.toks[from].0 {
                Tok::V(b) => b.seal().map(Tok::V),
                Tok::U(u) => u.seal().map(Tok::U),
            };
            match res {
                Ok(t) => r.produced("seal", json!({"from": from + 1}), t, root),
                Err(_) => r.events.push(json!({"ev": "refused", "op": "seal", "from": from + 1})),
            }
        } else {
            // reload through one of the entry points
            let bytes = r.toks[from].0.to_vec();
            let rootpk = keys::public_of(&root);
            let which = rng.gen_range(0..3);
            let re: Result<Vec<u8>, String> = match which {
                0 => Biscuit::from(&bytes, rootpk).map_err(|e| format!("{e:?}")).map(|b| b.to_vec().unwrap()),
                1 => Biscuit::from_base64(base64::encode_config(&bytes, base64::URL_SAFE), rootpk)
                    .map_err(|e| format!("{e:?}"))
                    .map(|b| b.to_vec().unwrap()),
                _ => UnverifiedBiscuit::from(&bytes)
                    .map_err(|e| format!("{e:?}"))
                    .and_then(|u| u.verify(rootpk).map_err(|e| format!("{e:?}")))
                    .map(|b| b.to_vec().unwrap()),
            };
            match re {
                Ok(b2) => {
                    let tok = r.p.project(&b2);
                    r.events.push(json!({"ev": "reload", "from": from + 1, "entry": which, "byte_exact": b2 == bytes, "tok": tok}));
                }
                Err(e) => r.events.push(json!({"ev": "reload-failed", "from": from + 1, "error": e})),
            }
        }
    }
    // byte-level variants of the serialized tokens, offered to every entry point under the token's root key:
    // whatever is ACCEPTED is recorded (projected) and must be the same signed token for the spec (TAdmit)
    let ntoks = r.toks.len();
    for idx in 0..ntoks.min(4) {
        let bytes = r.toks[idx].0.to_vec();
        let rootpk = keys::public_of(&r.toks[idx].1);
        for (kind, v) in variants(&mut rng, &bytes) {
            if v == bytes {
                continue;
            }
            for (path, res) in crate::chain::admit(&v, rootpk) {
                match res {
                    Ok(_) => {
                        let mode = match path { "legacy" => "legacy", "mixed" => "mixed", _ => "std" };
                        let tok = r.p.project(&v);
                        r.events.push(json!({"ev": "admit", "from": idx + 1, "path": path, "mode": mode, "kind": kind, "tok": tok}));
                    }
                    Err(e) if e.starts_with("PANIC") => r.events.push(json!({"ev": "admit-panic", "from": idx + 1, "path": path, "kind": kind, "error": e})),
                    Err(_) => {}
                }
            }
        }
    }
    // self-check of the projection: concretising the projected token gives back the bytes
    for (t, _) in &r.toks {
        let bytes = t.to_vec();
        let tok = r.p.project(&bytes);
        let back = token_bytes(&mut r.p.c, &tok);
        if tok.to_string().contains("unknown") {
            continue;
        }
        assert_eq!(back, bytes, "projection/concretisation are not inverse");
    }
    (r.events, r.p.payload_ver)
}

/// byte-level variants of a serialized token: protobuf re-encodings that keep every signed field
/// (unknown field, other root key id, other field order, explicit version 0, overlong varint) and
/// random corruptions (bit flip, byte set, truncation, insertion, deletion, duplicated slice)
fn variants(rng: &mut StdRng, bytes: &[u8]) -> Vec<(&'static str, Vec<u8>)> {
    use prost::encoding::{encode_key, encode_varint, WireType};
    let mut out: Vec<(&'static str, Vec<u8>)> = Vec::new();
    let mut v = bytes.to_vec();
    v.extend_from_slice(&[0x78, 0x01]);
    out.push(("unknown-field", v));
    if let Ok(t) = schema::Biscuit::decode(bytes) {
        let mut t2 = t.clone();
        t2.root_key_id = Some(t.root_key_id.map(|x| x + 1).unwrap_or(9));
        out.push(("root-key-id", t2.encode_to_vec()));
        let mut t3 = t.clone();
        for b in t3.blocks.iter_mut().chain(std::iter::once(&mut t3.authority)) {
            if b.version.is_none() {
                b.version = Some(0);
            }
        }
        out.push(("explicit-version-0", t3.encode_to_vec()));
        // another field order: proof, blocks, authority, root key id
        let mut v = Vec::new();
        let field = |tag: u32, m: &[u8], v: &mut Vec<u8>| {
            encode_key(tag, WireType::LengthDelimited, v);
            encode_varint(m.len() as u64, v);
            v.extend_from_slice(m);
        };
        field(4, &t.proof.encode_to_vec(), &mut v);
        for b in &t.blocks {
            field(3, &b.encode_to_vec(), &mut v);
        }
        field(2, &t.authority.encode_to_vec(), &mut v);
        if let Some(k) = t.root_key_id {
            encode_key(1, WireType::Varint, &mut v);
            encode_varint(k as u64, &mut v);
        }
        out.push(("field-order", v));
        // variants that CHANGE something signed: all of them must be refused
        let nb = t.blocks.len();
        let mut t4 = t.clone();
        { let b = if nb == 0 { &mut t4.authority } else { &mut t4.blocks[nb - 1] }; b.signature.push(0); }
        out.push(("signature-trailing-byte", t4.encode_to_vec()));
        let mut t5 = t.clone();
        t5.authority.signature.push(0);
        out.push(("authority-signature-trailing-byte", t5.encode_to_vec()));
        let mut t6 = t.clone();
        { let b = if nb == 0 { &mut t6.authority } else { &mut t6.blocks[nb - 1] }; b.next_key.algorithm = 2; }
        out.push(("next-key-unknown-algorithm", t6.encode_to_vec()));
        let mut t7 = t.clone();
        t7.authority.next_key.algorithm = 1 - t7.authority.next_key.algorithm;
        out.push(("authority-next-key-other-algorithm", t7.encode_to_vec()));
        if nb >= 1 {
            let mut t8 = t.clone();
            t8.blocks.pop();
            out.push(("drop-last-block", t8.encode_to_vec()));
            let mut t9 = t.clone();
            let n = t9.blocks[nb - 1].block.len();
            if n > 0 { t9.blocks[nb - 1].block[n - 1] ^= 1; }
            out.push(("last-payload-bit", t9.encode_to_vec()));
        }
        if nb >= 2 {
            let mut t10 = t.clone();
            t10.blocks.swap(nb - 1, nb - 2);
            out.push(("swap-last-blocks", t10.encode_to_vec()));
        }
        // overlong varint for the length of the authority block (field 2 comes first when there is no root key id)
        if t.root_key_id.is_none() && bytes.len() > 3 && bytes[0] == 0x12 {
            let mut len = 0u64;
            let mut i = 1;
            let mut shift = 0;
            while i < bytes.len() {
                len |= ((bytes[i] & 0x7f) as u64) << shift;
                shift += 7;
                i += 1;
                if bytes[i - 1] & 0x80 == 0 {
                    break;
                }
            }
            let mut v = vec![0x12];
            let mut n = len;
            let mut enc = Vec::new();
            loop {
                let b = (n & 0x7f) as u8;
                n >>= 7;
                if n == 0 { enc.push(b); break; } else { enc.push(b | 0x80); }
            }
            // make it one byte longer than necessary: continuation bit on the last byte + a zero byte
            let last = enc.len() - 1;
            enc[last] |= 0x80;
            enc.push(0x00);
            v.extend(enc);
            v.extend_from_slice(&bytes[i..]);
            out.push(("overlong-varint", v));
        }
    }
    for _ in 0..12 {
        let mut v = bytes.to_vec();
        let kind: &'static str = match rng.gen_range(0..6) {
            0 => { let i = rng.gen_range(0..v.len()); v[i] ^= 1 << rng.gen_range(0..8); "bit-flip" }
            1 => { let i = rng.gen_range(0..v.len()); v[i] = [0x00, 0xff, 0x7f, 0x80][rng.gen_range(0..4)]; "byte-set" }
            2 => { let i = rng.gen_range(1..v.len()); v.truncate(i); "truncate" }
            3 => { let i = rng.gen_range(0..=v.len()); v.insert(i, rng.gen()); "insert" }
            4 => { let i = rng.gen_range(0..v.len()); v.remove(i); "delete" }
            _ => { let i = rng.gen_range(0..v.len()); let j = rng.gen_range(i..v.len().min(i + 40)); let chunk = v[i..=j.min(v.len() - 1)].to_vec(); v.splice(i..i, chunk); "duplicate-slice" }
        };
        out.push((kind, v));
    }
    out
}

pub fn cmd_record(nruns: usize, out: &str) {
    let seed = keys::seed();
    let cases: Vec<Value> = (0..nruns).map(|i| json!(i)).collect();
    let rows = util::par_map(cases, || (), move |_, i, _| record_run(i, seed));
    let mut flat: Vec<Value> = Vec::new();
    let mut pv = serde_json::Map::new();
    for (ev, m) in rows {
        flat.extend(ev);
        for (k, v) in m {
            pv.insert(k, json!(v));
        }
    }
    util::write_ndjson(out, &flat);
    std::fs::write(format!("{out}.pv.json"), Value::Object(pv).to_string()).unwrap();
    println!("chain-record: {} runs, {} events", nruns, flat.len());
}
