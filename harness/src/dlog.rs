//! Replay of spec/DatalogMC.tla programs on the real Datalog engine
//! (`datalog::World`, public API), with provenance, order independence and
//! per-iteration events (hook H1).
use crate::util;
use biscuit_auth::datalog::{self, Fact, MapKey, Origin, Predicate, Rule, RunLimits, SymbolTable, Term, TrustedOrigins, World};
use rand::seq::SliceRandom;
use rand::SeedableRng;
use serde_json::{json, Value};
use std::collections::{BTreeMap, BTreeSet};
use std::time::Duration;

pub const AZ: u64 = 99;

fn oid(x: u64) -> usize {
    if x == AZ {
        usize::MAX
    } else {
        x as usize
    }
}

/// typed atom of the spec -> real term
pub fn term_of(t: &str, syms: &mut SymbolTable) -> Term {
    if t.starts_with('$') {
        return Term::Variable(syms.insert(&t[1..]) as u32);
    }
    let (ty, v) = t.split_once(':').unwrap_or(("s", t));
    match ty {
        "i" => Term::Integer(v.parse().unwrap()),
        "s" => Term::Str(syms.insert(v)),
        "b" => Term::Bool(v == "t"),
        "d" => Term::Date(v.parse().unwrap()),
        "y" => Term::Bytes(hex::decode(v).unwrap()),
        "n" => Term::Null,
        "set" => {
            // set:1 = {1}, set:2 = {1, 2}, set:3 = {2} (same size as set:1, other element)
            let mut s = BTreeSet::new();
            if v != "3" {
                s.insert(Term::Integer(1));
            }
            if v == "2" || v == "3" {
                s.insert(Term::Integer(2));
            }
            Term::Set(s)
        }
        "arr" => {
            // arr:1 = [1], arr:2 = [1, "a"], arr:3 = [2] (same length as arr:1), arr:4 = [[1]], arr:5 = [[2]] (differ only at depth 2)
            match v {
                "3" => Term::Array(vec![Term::Integer(2)]),
                "4" => Term::Array(vec![Term::Array(vec![Term::Integer(1)])]),
                "5" => Term::Array(vec![Term::Array(vec![Term::Integer(2)])]),
                _ => {
                    let mut a = vec![Term::Integer(1)];
                    if v == "2" {
                        a.push(Term::Str(syms.insert("a")));
                    }
                    Term::Array(a)
                }
            }
        }
        "map" => {
            let mut m = BTreeMap::new();
            // map:1 = {"a": 1}, map:2 = {1: null}, map:3 = {"a": 2} (same key as map:1, other value),
            // map:4 = {"a": [1]}, map:5 = {"a": [2]} (same key, values differ only inside a nested collection)
            match v {
                "1" => { m.insert(MapKey::Str(syms.insert("a")), Term::Integer(1)); }
                "3" => { m.insert(MapKey::Str(syms.insert("a")), Term::Integer(2)); }
                "4" => { m.insert(MapKey::Str(syms.insert("a")), Term::Array(vec![Term::Integer(1)])); }
                "5" => { m.insert(MapKey::Str(syms.insert("a")), Term::Array(vec![Term::Integer(2)])); }
                _ => { m.insert(MapKey::Integer(1), Term::Null); }
            }
            Term::Map(m)
        }
        o => panic!("unknown atom type {o}"),
    }
}

fn pred_of(p: &str, args: &Value, syms: &mut SymbolTable) -> Predicate {
    let name = syms.insert(p);
    let terms: Vec<Term> = args.as_array().unwrap().iter().map(|t| term_of(t.as_str().unwrap(), syms)).collect();
    Predicate { name, terms }
}

fn guard_of(g: &Value, syms: &mut SymbolTable) -> datalog::Expression {
    use datalog::{Binary, Op};
    let l = term_of(g["l"].as_str().unwrap(), syms);
    let r = term_of(g["r"].as_str().unwrap(), syms);
    let ops = match g["k"].as_str().unwrap() {
        "eq" => vec![Op::Value(l), Op::Value(r), Op::Binary(Binary::HeterogeneousEqual)],
        "neq" => vec![Op::Value(l), Op::Value(r), Op::Binary(Binary::HeterogeneousNotEqual)],
        "lt" => vec![Op::Value(l), Op::Value(r), Op::Binary(Binary::LessThan)],
        "nz" => vec![
            Op::Value(Term::Integer(10)),
            Op::Value(l),
            Op::Binary(Binary::Div),
            Op::Value(Term::Integer(0)),
            Op::Binary(Binary::GreaterOrEqual),
        ],
        "ov" => vec![
            Op::Value(Term::Integer(i64::MAX)),
            Op::Value(l),
            Op::Binary(Binary::Add),
            Op::Value(Term::Integer(0)),
            Op::Binary(Binary::GreaterThan),
        ],
        "false" => vec![Op::Value(Term::Bool(false))],
        o => panic!("guard {o}"),
    };
    datalog::Expression { ops }
}

pub struct Prog {
    pub syms: SymbolTable,
    pub facts: Vec<(Origin, Fact)>,
    pub rules: Vec<(usize, TrustedOrigins, Rule)>,
}

pub fn build_prog(case: &Value) -> Prog {
    let mut syms = SymbolTable::new();
    let mut facts = Vec::new();
    for e in case["facts"].as_array().unwrap() {
        let o: Origin = e["o"].as_array().unwrap().iter().map(|x| oid(x.as_u64().unwrap())).collect();
        facts.push((o, Fact { predicate: pred_of(e["p"].as_str().unwrap(), &e["a"], &mut syms) }));
    }
    let mut rules = Vec::new();
    for r in case["rules"].as_array().unwrap() {
        let head = pred_of(r["head"]["p"].as_str().unwrap(), &r["head"]["a"], &mut syms);
        let body: Vec<Predicate> = r["body"].as_array().unwrap().iter().map(|a| pred_of(a["p"].as_str().unwrap(), &a["a"], &mut syms)).collect();
        let expressions: Vec<datalog::Expression> = r["guards"].as_array().unwrap().iter().map(|g| guard_of(g, &mut syms)).collect();
        let tr: TrustedOrigins = r["trusted"].as_array().unwrap().iter().map(|x| oid(x.as_u64().unwrap())).collect();
        rules.push((oid(r["owner"].as_u64().unwrap()), tr, Rule { head, body, expressions, scopes: vec![] }));
    }
    Prog { syms, facts, rules }
}

fn limits() -> RunLimits {
    RunLimits { max_facts: 100_000, max_iterations: 10_000, max_time: Duration::from_secs(30) }
}

fn world_set(w: &World) -> BTreeSet<(Vec<usize>, Fact)> {
    w.facts
        .iter_all()
        .map(|(o, f)| {
            let id: Origin = o.clone();
            // Origin has no public accessor: go through Display-free route via Debug of BTreeSet order
            let ids = origin_ids(&id);
            (ids, f.clone())
        })
        .collect()
}

fn origin_ids(o: &Origin) -> Vec<usize> {
    // Display prints "0, 1, authorizer"
    let s = format!("{o}");
    if s.is_empty() {
        return vec![];
    }
    s.split(", ").map(|p| if p == "authorizer" { usize::MAX } else { p.parse().unwrap() }).collect()
}

fn run_world(p: &Prog, order_seed: Option<u64>) -> (Result<(), String>, World) {
    let mut w = World::new();
    let mut facts = p.facts.clone();
    let mut rules: Vec<_> = p.rules.clone();
    if let Some(s) = order_seed {
        let mut rng = rand::rngs::StdRng::seed_from_u64(s);
        facts.shuffle(&mut rng);
        rules.shuffle(&mut rng);
    }
    for (o, f) in &facts {
        w.add_fact(o, f.clone());
    }
    for (ow, tr, r) in &rules {
        w.add_rule(*ow, tr, r.clone());
    }
    let r = w.run_with_limits(&p.syms, limits()).map_err(|e| format!("{e:?}"));
    (r, w)
}

fn replay_case(idx: usize, case: &Value) -> Value {
    let mut problems: Vec<String> = Vec::new();
    let res = util::catch(|| {
        let mut problems = Vec::new();
        let mut p = build_prog(case);
        // expected fixpoint as real facts
        let mut want: BTreeSet<(Vec<usize>, Fact)> = BTreeSet::new();
        for e in case["lfp"].as_array().unwrap() {
            let mut o: Vec<usize> = e["o"].as_array().unwrap().iter().map(|x| oid(x.as_u64().unwrap())).collect();
            o.sort();
            want.insert((o, Fact { predicate: pred_of(e["p"].as_str().unwrap(), &e["a"], &mut p.syms) }));
        }
        biscuit_auth::verif::record(true);
        let (r, w) = run_world(&p, None);
        let events = biscuit_auth::verif::take();
        biscuit_auth::verif::record(false);
        if let Err(e) = &r {
            problems.push(format!("run failed: {e}"));
        }
        let got = world_set(&w);
        if got != want {
            let extra: Vec<String> = got.difference(&want).take(3).map(|(o, f)| format!("{:?} {}", o, p.syms.print_fact(f))).collect();
            let missing: Vec<String> = want.difference(&got).take(3).map(|(o, f)| format!("{:?} {}", o, p.syms.print_fact(f))).collect();
            problems.push(format!("fixpoint differs: extra {:?} missing {:?}", extra, missing));
        }
        // per-pass sizes (naive evaluation levels) from the iteration hook
        let levels: Vec<u64> = case["levels"].as_array().unwrap().iter().map(|x| x.as_u64().unwrap()).collect();
        let mut sizes: Vec<u64> = Vec::new();
        for ev in &events {
            let v: Value = serde_json::from_str(ev).unwrap();
            if v["ev"] == "iter" {
                if sizes.is_empty() {
                    sizes.push(v["before"].as_u64().unwrap());
                }
                if v["after"] != v["before"] {
                    sizes.push(v["after"].as_u64().unwrap());
                }
            }
        }
        if sizes != levels {
            problems.push(format!("evaluation levels {:?} differ from the spec's {:?}", sizes, levels));
        }
        if w.iterations != case["passes"].as_u64().unwrap() {
            problems.push(format!("iterations {} != spec passes {}", w.iterations, case["passes"]));
        }
        // order independence
        for s in 1..4u64 {
            let (r2, w2) = run_world(&p, Some(s * 7919 + idx as u64));
            if r2.is_err() != r.is_err() || world_set(&w2) != got {
                problems.push(format!("result depends on insertion order (shuffle {s})"));
            }
        }
        problems
    });
    match res {
        Ok(p) => problems.extend(p),
        Err(p) => problems.push(format!("PANIC {p}")),
    }
    json!({"idx": idx, "ok": problems.is_empty(), "problems": problems})
}

pub fn cmd_replay(input: &str, output: &str) {
    util::quiet_panics();
    let cases = util::read_ndjson(input);
    let rows = util::par_map(cases, || (), |_, i, case| replay_case(i, case));
    util::write_ndjson(output, &rows);
    let bad = rows.iter().filter(|r| !r["ok"].as_bool().unwrap()).count();
    println!("dlog-replay: {} cases, {} disagreements", rows.len(), bad);
}
