//! C06: replay of spec/ExprMC.tla cases on `datalog::Expression::evaluate`.
use crate::util;
use biscuit_auth::datalog::{Binary, Expression, MapKey, Op, SymbolTable, TemporarySymbolTable, Term, Unary};
use serde_json::{json, Value};
use std::collections::{BTreeMap, BTreeSet, HashMap};

const P62: i128 = 1 << 62;

fn var_id(name: &str, syms: &mut SymbolTable) -> u32 {
    syms.insert(name) as u32
}

pub fn term_of(v: &Value, syms: &mut SymbolTable) -> Term {
    match v["t"].as_str().unwrap() {
        "int" => {
            let k = v["k"].as_i64().unwrap() as i128;
            let r = v["r"].as_i64().unwrap() as i128;
            Term::Integer((k * P62 + r) as i64)
        }
        "str" => Term::Str(syms.insert(v["v"].as_str().unwrap())),
        "date" => Term::Date(v["r"].as_u64().unwrap()),
        "bytes" => Term::Bytes(hex::decode(v["v"].as_str().unwrap()).unwrap()),
        "bool" => Term::Bool(v["b"].as_bool().unwrap()),
        "null" => Term::Null,
        "set" => Term::Set(v["e"].as_array().unwrap().iter().map(|x| term_of(x, syms)).collect::<BTreeSet<_>>()),
        "arr" => Term::Array(v["e"].as_array().unwrap().iter().map(|x| term_of(x, syms)).collect()),
        "map" => {
            let mut m = BTreeMap::new();
            for p in v["e"].as_array().unwrap() {
                let k = match term_of(&p[0], syms) {
                    Term::Integer(i) => MapKey::Integer(i),
                    Term::Str(s) => MapKey::Str(s),
                    o => panic!("bad map key {o:?}"),
                };
                m.insert(k, term_of(&p[1], syms));
            }
            Term::Map(m)
        }
        o => panic!("value type {o}"),
    }
}

/// real term -> the spec's value record (canonical: sets and maps sorted)
pub fn value_of(t: &Term, syms: &TemporarySymbolTable) -> Value {
    match t {
        Term::Integer(i) => {
            let v = *i as i128;
            let k = ((v as f64) / (P62 as f64)).round() as i128;
            json!({"t": "int", "k": k as i64, "r": (v - k * P62) as i64})
        }
        Term::Str(s) => json!({"t": "str", "v": syms.get_symbol(*s).map(|x| x.to_string()).unwrap_or_else(|| format!("<unknown symbol {s}>"))}),
        Term::Date(d) => json!({"t": "date", "r": d}),
        Term::Bytes(b) => json!({"t": "bytes", "v": hex::encode(b)}),
        Term::Bool(b) => json!({"t": "bool", "b": b}),
        Term::Null => json!({"t": "null"}),
        Term::Set(s) => {
            let mut e: Vec<Value> = s.iter().map(|x| value_of(x, syms)).collect();
            e.sort_by_key(|x| x.to_string());
            json!({"t": "set", "e": e})
        }
        Term::Array(a) => json!({"t": "arr", "e": a.iter().map(|x| value_of(x, syms)).collect::<Vec<_>>()}),
        Term::Map(m) => {
            let mut e: Vec<Value> = m
                .iter()
                .map(|(k, v)| {
                    let kt = match k {
                        MapKey::Integer(i) => Term::Integer(*i),
                        MapKey::Str(s) => Term::Str(*s),
                    };
                    json!([value_of(&kt, syms), value_of(v, syms)])
                })
                .collect();
            e.sort_by_key(|x| x.to_string());
            json!({"t": "map", "e": e})
        }
        Term::Variable(v) => json!({"t": "var", "n": v}),
    }
}

fn canon(v: &Value) -> Value {
    match v {
        Value::Object(o) => {
            let mut out = serde_json::Map::new();
            for (k, x) in o {
                out.insert(k.clone(), canon(x));
            }
            let t = out.get("t").and_then(|x| x.as_str()).unwrap_or("").to_string();
            if t == "set" || t == "map" {
                if let Some(Value::Array(e)) = out.get("e").cloned() {
                    let mut e = e;
                    e.sort_by_key(|x| x.to_string());
                    out.insert("e".to_string(), Value::Array(e));
                }
            }
            Value::Object(out)
        }
        Value::Array(a) => Value::Array(a.iter().map(canon).collect()),
        o => o.clone(),
    }
}

fn unary_of(name: &str) -> Unary {
    match name {
        "Negate" => Unary::Negate,
        "Parens" => Unary::Parens,
        "Length" => Unary::Length,
        "TypeOf" => Unary::TypeOf,
        o => panic!("unary {o}"),
    }
}

fn binary_of(name: &str) -> Binary {
    use Binary::*;
    match name {
        "LessThan" => LessThan,
        "GreaterThan" => GreaterThan,
        "LessOrEqual" => LessOrEqual,
        "GreaterOrEqual" => GreaterOrEqual,
        "Equal" => Equal,
        "NotEqual" => NotEqual,
        "HeterogeneousEqual" => HeterogeneousEqual,
        "HeterogeneousNotEqual" => HeterogeneousNotEqual,
        "Add" => Add,
        "Sub" => Sub,
        "Mul" => Mul,
        "Div" => Div,
        "BitwiseAnd" => BitwiseAnd,
        "BitwiseOr" => BitwiseOr,
        "BitwiseXor" => BitwiseXor,
        "And" => And,
        "Or" => Or,
        "Prefix" => Prefix,
        "Suffix" => Suffix,
        "Regex" => Regex,
        "Contains" => Contains,
        "Intersection" => Intersection,
        "Union" => Union,
        "Get" => Get,
        "LazyAnd" => LazyAnd,
        "LazyOr" => LazyOr,
        "All" => All,
        "Any" => Any,
        o => panic!("binary {o}"),
    }
}

/// the registry of extern functions the specification fixes (Expr.tla, Extern)
pub fn registry() -> HashMap<String, biscuit_auth::datalog::ExternFunc> {
    use biscuit_auth::builder::Term as BT;
    use biscuit_auth::datalog::ExternFunc;
    use std::sync::Arc;
    let mut m = HashMap::new();
    m.insert("id".to_string(), ExternFunc::new(Arc::new(|a: BT, _b: Option<BT>| Ok(a))));
    m.insert("second".to_string(), ExternFunc::new(Arc::new(|_a: BT, b: Option<BT>| b.ok_or_else(|| "one argument".to_string()))));
    m.insert("fail".to_string(), ExternFunc::new(Arc::new(|_a: BT, _b: Option<BT>| Err("fails".to_string()))));
    m.insert("sym".to_string(), ExternFunc::new(Arc::new(|_a: BT, _b: Option<BT>| Ok(BT::Str("read".to_string())))));
    m.insert("isint".to_string(), ExternFunc::new(Arc::new(|a: BT, _b: Option<BT>| Ok(BT::Bool(matches!(a, BT::Integer(_)))))));
    m
}

fn ops_of(v: &Value, syms: &mut SymbolTable) -> Vec<Op> {
    v.as_array()
        .unwrap()
        .iter()
        .map(|o| match o["o"].as_str().unwrap() {
            "val" => Op::Value(term_of(&o["v"], syms)),
            "var" => Op::Value(Term::Variable(var_id(o["n"].as_str().unwrap(), syms))),
            "un" if o["op"] == "Ffi" => Op::Unary(Unary::Ffi(syms.insert(o["f"].as_str().unwrap()))),
            "bin" if o["op"] == "Ffi" => Op::Binary(Binary::Ffi(syms.insert(o["f"].as_str().unwrap()))),
            "un" => Op::Unary(unary_of(o["op"].as_str().unwrap())),
            "bin" => Op::Binary(binary_of(o["op"].as_str().unwrap())),
            "clo" => Op::Closure(
                o["params"].as_array().unwrap().iter().map(|p| var_id(p.as_str().unwrap(), syms)).collect(),
                ops_of(&o["body"], syms),
            ),
            x => panic!("op {x}"),
        })
        .collect()
}

fn replay_case(idx: usize, case: &Value) -> Value {
    let mut problems: Vec<String> = Vec::new();
    let r = util::catch(|| {
        let mut syms = SymbolTable::new();
        let ops = ops_of(&case["ops"], &mut syms);
        let mut env: HashMap<u32, Term> = HashMap::new();
        if let Some(o) = case["env"].as_object() {
            for (k, v) in o {
                let id = var_id(k, &mut syms);
                env.insert(id, term_of(v, &mut syms));
            }
        }
        let e = Expression { ops };
        let mut tmp = TemporarySymbolTable::new(&syms);
        let r = e.evaluate(&env, &mut tmp, &registry());
        match r {
            Ok(t) => (json!("ok"), value_of(&t, &tmp)),
            Err(e) => (json!(format!("{e:?}")), json!({"t": "ERR"})),
        }
    });
    let want = canon(&case["expect"]);
    match r {
        Ok((detail, got)) => {
            let got = canon(&got);
            if got != want {
                problems.push(format!("evaluate gives {} ({}) but the spec says {}", got, detail, want));
            }
        }
        Err(p) => problems.push(format!("PANIC {p}")),
    }
    json!({"idx": idx, "ok": problems.is_empty(), "problems": problems})
}

pub fn cmd_replay(input: &str, output: &str) {
    util::quiet_panics();
    let cases = util::read_ndjson(input);
    let rows = util::par_map(cases, || (), |_, i, case| replay_case(i, case));
    util::write_ndjson(output, &rows);
    let bad = rows.iter().filter(|r| !r["ok"].as_bool().unwrap()).count();
    println!("expr-replay: {} cases, {} disagreements", rows.len(), bad);
}
