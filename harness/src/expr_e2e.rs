//! C06 end to end: the cases of spec/ExprMC.tla evaluated INSIDE a real authorization - the expression
//! sits in a check of the token's authority block or of the authorizer, goes through the builders,
//! the block's and the authorizer's symbol tables, serialization and the rule engine.
//!   spec value v  : `E == v` must hold and `E != v` must not;  spec error : authorize() must fail
//!   with an evaluation error.
use crate::auth::big_limits;
use crate::keys;
use crate::util;
use biscuit_auth::builder::{self, AuthorizerBuilder, Binary, Check, CheckKind, Expression, MapKey, Op, Rule, Term, Unary};
use biscuit_auth::datalog::SymbolTable;
use biscuit_auth::{error, Biscuit};
use serde_json::{json, Value};
use std::collections::{BTreeMap, BTreeSet};

const P62: i128 = 1 << 62;

fn term_of(v: &Value) -> Term {
    match v["t"].as_str().unwrap() {
        "int" => Term::Integer(((v["k"].as_i64().unwrap() as i128) * P62 + v["r"].as_i64().unwrap() as i128) as i64),
        "str" => Term::Str(v["v"].as_str().unwrap().to_string()),
        "date" => Term::Date(v["r"].as_u64().unwrap()),
        "bytes" => Term::Bytes(hex::decode(v["v"].as_str().unwrap()).unwrap()),
        "bool" => Term::Bool(v["b"].as_bool().unwrap()),
        "null" => Term::Null,
        "set" => Term::Set(v["e"].as_array().unwrap().iter().map(term_of).collect::<BTreeSet<_>>()),
        "arr" => Term::Array(v["e"].as_array().unwrap().iter().map(term_of).collect()),
        "map" => {
            let mut m = BTreeMap::new();
            for p in v["e"].as_array().unwrap() {
                let k = match term_of(&p[0]) {
                    Term::Integer(i) => MapKey::Integer(i),
                    Term::Str(s) => MapKey::Str(s),
                    o => panic!("bad map key {o:?}"),
                };
                m.insert(k, term_of(&p[1]));
            }
            Term::Map(m)
        }
        o => panic!("value type {o}"),
    }
}

fn binary_of(name: &str) -> Binary {
    use Binary::*;
    match name {
        "LessThan" => LessThan, "GreaterThan" => GreaterThan, "LessOrEqual" => LessOrEqual, "GreaterOrEqual" => GreaterOrEqual,
        "Equal" => Equal, "NotEqual" => NotEqual, "HeterogeneousEqual" => HeterogeneousEqual, "HeterogeneousNotEqual" => HeterogeneousNotEqual,
        "Add" => Add, "Sub" => Sub, "Mul" => Mul, "Div" => Div, "BitwiseAnd" => BitwiseAnd, "BitwiseOr" => BitwiseOr, "BitwiseXor" => BitwiseXor,
        "And" => And, "Or" => Or, "Prefix" => Prefix, "Suffix" => Suffix, "Regex" => Regex, "Contains" => Contains,
        "Intersection" => Intersection, "Union" => Union, "Get" => Get, "LazyAnd" => LazyAnd, "LazyOr" => LazyOr, "All" => All, "Any" => Any,
        o => panic!("binary {o}"),
    }
}

fn ops_of(v: &Value) -> Vec<Op> {
    v.as_array().unwrap().iter().map(|o| match o["o"].as_str().unwrap() {
        "val" => Op::Value(term_of(&o["v"])),
        "var" => Op::Value(Term::Variable(o["n"].as_str().unwrap().to_string())),
        "un" if o["op"] == "Ffi" => Op::Unary(Unary::Ffi(o["f"].as_str().unwrap().to_string())),
        "bin" if o["op"] == "Ffi" => Op::Binary(Binary::Ffi(o["f"].as_str().unwrap().to_string())),
        "un" => Op::Unary(match o["op"].as_str().unwrap() { "Negate" => Unary::Negate, "Parens" => Unary::Parens, "Length" => Unary::Length, "TypeOf" => Unary::TypeOf, x => panic!("unary {x}") }),
        "bin" => Op::Binary(binary_of(o["op"].as_str().unwrap())),
        "clo" => Op::Closure(o["params"].as_array().unwrap().iter().map(|p| p.as_str().unwrap().to_string()).collect(), ops_of(&o["body"])),
        x => panic!("op {x}"),
    }).collect()
}

fn mixed_set(v: &Value) -> bool {
    match v["t"].as_str().unwrap_or("") {
        "set" => {
            let e = v["e"].as_array().unwrap();
            e.iter().any(|x| x["t"] != e[0]["t"]) || e.iter().any(mixed_set)
        }
        "arr" => v["e"].as_array().unwrap().iter().any(mixed_set),
        "map" => v["e"].as_array().unwrap().iter().any(|p| mixed_set(&p[1])),
        _ => false,
    }
}

/// outcome of authorizing with the check `body, ops`: "pass" | "fail" | "error <e>"
fn run_check(ops: Vec<Op>, env: &serde_json::Map<String, Value>, in_token: bool) -> Result<String, String> {
    let e = |e: error::Token| format!("{e:?}");
    // rule variables of the case are bound by facts
    let mut body = Vec::new();
    let mut facts = Vec::new();
    for (name, v) in env {
        body.push(builder::pred(&format!("env_{name}"), &[builder::var(name)]));
        facts.push(builder::fact(&format!("env_{name}"), &[term_of(v)]));
    }
    let q = Rule::new(builder::pred("query", &[] as &[Term]), body, vec![Expression { ops }], vec![]);
    let check = Check { queries: vec![q], kind: CheckKind::One };
    let root = keys::keypair("R", "ed");
    let mut bb = Biscuit::builder();
    let mut ab = AuthorizerBuilder::new().policy("allow if true").map_err(e)?;
    for f in facts {
        bb = bb.fact(f).map_err(e)?;
    }
    if in_token {
        bb = bb.check(check).map_err(e)?;
    } else {
        ab = ab.check(check).map_err(e)?;
    }
    let tok = bb.build_with_key_pair(&root, SymbolTable::new(), &keys::keypair("K1", "ed")).map_err(e)?;
    let tok = Biscuit::from(tok.to_vec().map_err(e)?, root.public()).map_err(e)?;
    let mut a = ab.limits(big_limits()).set_extern_funcs(crate::expr::registry()).build(&tok).map_err(e)?;
    Ok(match a.authorize() {
        Ok(_) => "pass".to_string(),
        Err(error::Token::FailedLogic(error::Logic::Unauthorized { .. })) => "fail".to_string(),
        Err(error::Token::Execution(x)) => format!("error {x:?}"),
        Err(x) => format!("other {x:?}"),
    })
}

fn replay_case(idx: usize, case: &Value) -> Value {
    let mut problems: Vec<String> = Vec::new();
    let want = &case["expect"];
    let empty = serde_json::Map::new();
    let env = case["env"].as_object().unwrap_or(&empty);
    let r = util::catch(|| {
        let mut p = Vec::new();
        for in_token in [true, false] {
            let place = if in_token { "token" } else { "authorizer" };
            if want["t"] == "ERR" {
                // the expression alone: its evaluation error must surface as an error of authorize()
                match run_check(ops_of(&case["ops"]), env, in_token) {
                    Ok(o) if o.starts_with("error") => {}
                    Ok(o) => p.push(format!("{place}: the spec says the evaluation fails, authorize gives {o}")),
                    Err(e) => p.push(format!("{place}: harness: {e}")),
                }
            } else if mixed_set(want) {
                // the value cannot be written as a literal (the wire format refuses sets of mixed types): not expressible end to end
            } else {
                for (cmp, expect) in [(Binary::HeterogeneousEqual, "pass"), (Binary::HeterogeneousNotEqual, "fail")] {
                    let mut ops = ops_of(&case["ops"]);
                    ops.push(Op::Value(term_of(want)));
                    ops.push(Op::Binary(cmp.clone()));
                    match run_check(ops, env, in_token) {
                        Ok(o) if o == expect => {}
                        Ok(o) => p.push(format!("{place}: `E {} {}` gives {o}, the spec's value makes it {expect}", if expect == "pass" { "==" } else { "!=" }, want)),
                        Err(e) => p.push(format!("{place}: harness: {e}")),
                    }
                }
            }
        }
        p
    });
    match r {
        Ok(p) => problems.extend(p),
        Err(p) => problems.push(format!("PANIC {p}")),
    }
    problems.truncate(3);
    json!({"idx": idx, "ok": problems.is_empty(), "problems": problems})
}

pub fn cmd_replay(input: &str, output: &str) {
    util::quiet_panics();
    let cases = util::read_ndjson(input);
    let rows = util::par_map(cases, || (), |_, i, case| replay_case(i, case));
    util::write_ndjson(output, &rows);
    let bad = rows.iter().filter(|r| !r["ok"].as_bool().unwrap()).count();
    println!("expr-e2e: {} cases, {} disagreements", rows.len(), bad);
}
