//! C09: replay of spec/Ingest.tla: correctly signed tokens whose block contents are adversarial,
//! every public operation on them, plus seeded byte-level corruption of every external input.
use crate::chain::token_bytes;
use crate::keys;
use crate::layout::Concretiser;
use crate::util;
use biscuit_auth::builder::{AuthorizerBuilder, BlockBuilder};
use biscuit_auth::datalog::SymbolTable;
use biscuit_auth::format::schema::{self, op, scope, term_v2};
use biscuit_auth::{Authorizer, Biscuit, UnverifiedBiscuit};
use prost::Message;
use rand::rngs::StdRng;
use rand::{Rng, SeedableRng};
use serde_json::{json, Value};
use std::collections::HashMap;

const BASE: &str = "user(\"alice\"); r($x) <- user($x), $x != \"bob\" trusting authority; check if user($x), $x.length() > 0;";

fn base_block(third_party: bool) -> schema::Block {
    let root = keys::keypair("R", "ed");
    let t = Biscuit::builder().code("f(1);").unwrap().build_with_key_pair(&root, SymbolTable::new(), &keys::keypair("K1", "ed")).unwrap();
    let bytes = if third_party {
        let blk = t.third_party_request().unwrap().create_block(&keys::keypair("E1", "ed").private(), BlockBuilder::new().code(BASE).unwrap()).unwrap();
        schema::ThirdPartyBlockContents::decode(&blk.serialize().unwrap()[..]).unwrap().payload
    } else {
        let t = Biscuit::builder().code(BASE).unwrap().build_with_key_pair(&root, SymbolTable::new(), &keys::keypair("K1", "ed")).unwrap();
        schema::Biscuit::decode(&t.to_vec().unwrap()[..]).unwrap().authority.block
    };
    schema::Block::decode(&bytes[..]).unwrap()
}

fn term(c: term_v2::Content) -> schema::TermV2 {
    schema::TermV2 { content: Some(c) }
}
fn val(c: term_v2::Content) -> schema::Op {
    schema::Op { content: Some(op::Content::Value(term(c))) }
}
fn bin(kind: i32) -> schema::Op {
    schema::Op { content: Some(op::Content::Binary(schema::OpBinary { kind, ffi_name: None })) }
}

/// payload bytes of the faulty block
fn faulty_payload(fault: &str, pos: &str) -> Vec<u8> {
    let mut b = base_block(pos == "third_party");
    if pos == "block1" {
        // a first-party block that follows the authority: must not redeclare its symbols
        b.symbols = vec!["carol".to_string(), "dave".to_string()];
        // the base references symbols 1024.. of its own table: shift them past the authority's table
        // (keep it simple: block1 reuses the authority's strings, which is legal, so clear its table instead)
        b.symbols.clear();
    }
    let ops_of = |b: &mut schema::Block, ops: Vec<schema::Op>| b.checks_v2[0].queries[0].expressions[0].ops = ops;
    match fault {
        "none" => {}
        "symbol_out_of_range_fact" => b.facts_v2[0].predicate.terms[0] = term(term_v2::Content::String(5000)),
        "symbol_out_of_range_rule_body" => b.rules_v2[0].body[0].terms[0] = term(term_v2::Content::String(5000)),
        "predicate_name_out_of_range" => b.facts_v2[0].predicate.name = 9999,
        "key_out_of_range_rule_scope" => b.rules_v2[0].scope = vec![schema::Scope { content: Some(scope::Content::PublicKey(77)) }],
        "key_out_of_range_block_scope" => b.scope = vec![schema::Scope { content: Some(scope::Content::PublicKey(77)) }],
        "head_variable_unbound" => {
            // a variable the body does not bind, named by a symbol that EXISTS (the one of the fact's string)
            let known = match b.facts_v2[0].predicate.terms[0].content { Some(term_v2::Content::String(i)) => i as u32, _ => 4242 };
            b.rules_v2[0].head.terms = vec![term(term_v2::Content::Variable(known))]
        }
        "expr_empty" => ops_of(&mut b, vec![]),
        "expr_binary_underflow" => ops_of(&mut b, vec![val(term_v2::Content::Integer(1)), bin(9)]),
        "expr_leftover" => ops_of(&mut b, vec![val(term_v2::Content::Integer(1)), val(term_v2::Content::Integer(2))]),
        "expr_closure_first" => ops_of(&mut b, vec![
            schema::Op { content: Some(op::Content::Closure(schema::OpClosure { params: vec![], ops: vec![val(term_v2::Content::Bool(true))] })) },
            val(term_v2::Content::Bool(true)),
            bin(23),
        ]),
        "expr_unknown_op_kind" => ops_of(&mut b, vec![val(term_v2::Content::Integer(1)), schema::Op { content: Some(op::Content::Unary(schema::OpUnary { kind: 99, ffi_name: None })) }]),
        "expr_ffi_name_out_of_range" => ops_of(&mut b, vec![val(term_v2::Content::Integer(1)), schema::Op { content: Some(op::Content::Unary(schema::OpUnary { kind: 4, ffi_name: Some(9999) })) }]),
        "closure_two_params" => ops_of(&mut b, vec![
            val(term_v2::Content::Set(schema::TermSet { set: vec![term(term_v2::Content::Integer(1))] })),
            schema::Op { content: Some(op::Content::Closure(schema::OpClosure { params: vec![1, 2], ops: vec![val(term_v2::Content::Bool(true))] })) },
            bin(25),
        ]),
        "version_0" => b.version = Some(0),
        "version_2" => b.version = Some(2),
        "version_7" => b.version = Some(7),
        "version_max_u32" => b.version = Some(u32::MAX),
        "version_absent" => b.version = None,
        "redeclares_default_symbol" => b.symbols.push("read".to_string()),
        "redeclares_earlier_symbol" => {
            if pos == "block1" { b.symbols.push("alice".to_string()) } else { let s = b.symbols.get(0).cloned().unwrap_or("alice".into()); b.symbols.push(s) }
        }
        "duplicate_public_key" => {
            let k = keys::keypair("PK", "ed").public().to_proto();
            b.public_keys = vec![k.clone(), k];
        }
        "term_empty_oneof" => b.facts_v2[0].predicate.terms[0] = schema::TermV2 { content: None },
        "op_empty_oneof" => ops_of(&mut b, vec![schema::Op { content: None }]),
        "scope_empty_oneof" => b.scope = vec![schema::Scope { content: None }],
        "mapkey_empty_oneof" => {
            b.facts_v2[0].predicate.terms[0] = term(term_v2::Content::Map(schema::Map { entries: vec![schema::MapEntry { key: schema::MapKey { content: None }, value: term(term_v2::Content::Integer(1)) }] }))
        }
        "set_with_variable" => b.facts_v2[0].predicate.terms[0] = term(term_v2::Content::Set(schema::TermSet { set: vec![term(term_v2::Content::Variable(1))] })),
        "set_nested" => {
            b.facts_v2[0].predicate.terms[0] = term(term_v2::Content::Set(schema::TermSet { set: vec![term(term_v2::Content::Set(schema::TermSet { set: vec![term(term_v2::Content::Integer(1))] }))] }))
        }
        "set_mixed_types" => {
            b.facts_v2[0].predicate.terms[0] = term(term_v2::Content::Set(schema::TermSet { set: vec![term(term_v2::Content::Integer(1)), term(term_v2::Content::Bool(true))] }))
        }
        "check_no_queries" => b.checks_v2[0].queries.clear(),
        "check_unknown_kind" => b.checks_v2[0].kind = Some(9),
        "deep_array_nesting" => {
            let mut t = term(term_v2::Content::Integer(1));
            for _ in 0..300 {
                t = term(term_v2::Content::Array(schema::Array { array: vec![t] }));
            }
            b.facts_v2[0].predicate.terms[0] = t;
        }
        "huge_symbol_table" => {
            for i in 0..50_000 {
                b.symbols.push(format!("sym{i}"));
            }
        }
        f if f.starts_with("date_") => {
            // a date is a u64 on the wire, read as a signed number of seconds: the ends of what can be printed
            let secs: i64 = match f {
                "date_year_minus_1" => -62167219201,            // 31 December of year -1
                "date_year_minus_9999" => -377705116800,        // 1 January of year -9999
                "date_below_year_minus_9999" => -377705116801,
                "date_i64_min" => i64::MIN,
                "date_u64_max" => -1,
                "date_year_10000" => 253402300800,
                _ => i64::MAX,
            };
            let d = term(term_v2::Content::Date(secs as u64));
            b.facts_v2[0].predicate.terms[0] = d.clone();
            // ... and in a check that FAILS, so that the error carries the printed check
            ops_of(&mut b, vec![val(term_v2::Content::Date(secs as u64)), val(term_v2::Content::Date(secs as u64)), bin(0)]);
        }
        "int_i64_min_fact" => b.facts_v2[0].predicate.terms[0] = term(term_v2::Content::Integer(i64::MIN)),
        "bytes_empty" => b.facts_v2[0].predicate.terms[0] = term(term_v2::Content::Bytes(vec![])),
        "string_empty_symbol" => { b.symbols.push(String::new()); let i = 1024 + b.symbols.len() as u64 - 1; b.facts_v2[0].predicate.terms[0] = term(term_v2::Content::String(i)); }
        f if f.starts_with("world_") => {}    // only meaningful inside a snapshot: the token carries the fault-free block
        "payload_garbage" => return vec![0xff, 0x13, 0x37, 0x00, 0x81, 0x82, 0x83, 0xff, 0xff, 0xff, 0xff, 0x0f],
        "payload_empty" => return vec![],
        o => panic!("unknown fault {o}"),
    }
    b.encode_to_vec()
}

/// adversarial but well-formed contents: the expression of an `eval` / `eval_snippet` case as Datalog source
fn eval_source(case: &Value) -> String {
    let c = &case["c"];
    if c["fault"] == "eval_snippet" {
        return format!("check if {};", c["src"].as_str().unwrap());
    }
    let (op, a, b) = (c["op"].as_str().unwrap(), c["a"].as_str().unwrap(), c["b"].as_str().unwrap());
    if c["where"] == "literal" {
        format!("check if ({a} {op} {b}) === ({a} {op} {b});")
    } else {
        format!("val_a({a}); val_b({b}); check if val_a($a), val_b($b), ($a {op} $b) === ($a {op} $b); d($a, $b) <- val_a($a), val_b($b), ($a {op} $b) === ($a {op} $b);")
    }
}

/// a token built with the library itself whose block at `pos` carries `extra`
fn mint_source(extra: &str, pos: &str) -> Result<Vec<u8>, String> {
    let e = |e: biscuit_auth::error::Token| format!("{e:?}");
    let root = keys::keypair("R", "ed");
    let src = format!("{BASE} {extra}");
    if pos == "authority" {
        return Biscuit::builder().code(&src).map_err(e)?.build_with_key_pair(&root, SymbolTable::new(), &keys::keypair("K1", "ed")).map_err(e)?.to_vec().map_err(e);
    }
    let t = Biscuit::builder().code(BASE).map_err(e)?.build_with_key_pair(&root, SymbolTable::new(), &keys::keypair("K1", "ed")).map_err(e)?;
    let bb = BlockBuilder::new().code(&src).map_err(e)?;
    if pos == "block1" {
        t.append_with_keypair(&keys::keypair("K2", "ed"), bb).map_err(e)?.to_vec().map_err(e)
    } else {
        let ext = keys::keypair("E1", "ed");
        let blk = t.third_party_request().map_err(e)?.create_block(&ext.private(), bb).map_err(e)?;
        t.append_third_party_with_keypair(ext.public(), blk, keys::keypair("K2", "ed")).map_err(e)?.to_vec().map_err(e)
    }
}

/// a correctly signed token carrying the faulty block at `pos`
fn mint(c: &mut Concretiser, fault: &str, pos: &str) -> Vec<u8> {
    // signatures are memoised by abstract value: every case uses fresh payload ids
    c.sig_cache.clear();
    let k = |id: &str| json!({"id": id, "alg": "ed"});
    let no = json!([]);
    let good = base_block(false).encode_to_vec();
    let bad = faulty_payload(fault, pos);
    let (p0, p1): (Vec<u8>, Option<Vec<u8>>) = match pos {
        "authority" => (bad, None),
        _ => (good, Some(bad)),
    };
    c.payloads.insert("B0".into(), p0);
    let m0 = json!({"tag": "v1", "ver": 1, "payload": "B0", "nk": k("K1"), "prev": no, "ext": no});
    let s0 = json!({"signer": k("R"), "msg": m0, "form": 0});
    let mut blocks = vec![json!({"payload": "B0", "nk": k("K1"), "sig": s0, "ext": no, "ver": 1})];
    let mut last = "K1";
    if let Some(p1) = p1 {
        c.payloads.insert("B1".into(), p1);
        let ext: Value = if pos == "third_party" {
            let em = json!({"tag": "ext", "ver": 1, "payload": "B1", "nk": {"id": "none", "alg": "none"}, "prev": [s0], "ext": no});
            json!([{"key": k("E1"), "sig": {"signer": k("E1"), "msg": em, "form": 0}}])
        } else {
            json!([])
        };
        let extsig: Vec<Value> = ext.as_array().unwrap().iter().map(|e| e["sig"].clone()).collect();
        let m1 = json!({"tag": "v1", "ver": 1, "payload": "B1", "nk": k("K2"), "prev": [s0], "ext": extsig});
        blocks.push(json!({"payload": "B1", "nk": k("K2"), "sig": {"signer": k("K1"), "msg": m1, "form": 0}, "ext": ext, "ver": 1}));
        last = "K2";
    }
    let tok = json!({"rkid": 0, "blocks": blocks, "proof": {"kind": "secret", "key": k(last), "sig": no}});
    token_bytes(c, &tok)
}

fn guard<T>(name: &str, out: &mut Vec<(String, String)>, f: impl FnOnce() -> Result<T, String>) -> Option<T> {
    let t0 = std::time::Instant::now();
    let r = util::catch(f);
    let dt = t0.elapsed().as_secs_f64();
    let (s, v) = match r {
        Ok(Ok(v)) => ("ok".to_string(), Some(v)),
        Ok(Err(e)) => (format!("err {}", e.chars().take(80).collect::<String>()), None),
        Err(p) => (format!("PANIC {p}"), None),
    };
    let s = if dt > 10.0 { format!("HANG {dt:.1}s {s}") } else { s };
    out.push((name.to_string(), s));
    v
}

fn limits() -> biscuit_auth::datalog::RunLimits {
    biscuit_auth::datalog::RunLimits { max_facts: 10_000, max_iterations: 100, max_time: std::time::Duration::from_secs(5) }
}

/// every public operation on an object obtained from untrusted bytes
pub fn sweep(bytes: &[u8], out: &mut Vec<(String, String)>) {
    let root = keys::keypair("R", "ed").public();
    let e = |e: biscuit_auth::error::Token| format!("{e:?}");
    let b = guard("from", out, || Biscuit::from(bytes, root).map_err(e));
    let _ = guard("from_base64", out, || Biscuit::from_base64(base64::encode_config(bytes, base64::URL_SAFE), root).map_err(e));
    let u = guard("unverified_from", out, || UnverifiedBiscuit::from(bytes).map_err(e));
    if let Some(u) = &u {
        for i in [0usize, 1, 2, 3, usize::MAX] {
            guard(&format!("u.print_block_source({i})"), out, || u.print_block_source(i).map_err(e));
            guard(&format!("u.block_version({i})"), out, || u.block_version(i).map_err(e));
        }
        guard("u.revocation_identifiers", out, || Ok(u.revocation_identifiers()));
        guard("u.external_public_keys", out, || Ok(u.external_public_keys()));
        guard("u.append", out, || u.append(BlockBuilder::new().code("z(1);").unwrap()).map_err(e));
        guard("u.seal", out, || u.seal().map_err(e));
        guard("u.third_party_request", out, || u.third_party_request().map(|_| ()).map_err(e));
        guard("u.verify", out, || u.clone().verify(root).map_err(|e| format!("{e:?}")));
    }
    if let Some(b) = &b {
        guard("print", out, || Ok(b.print()));
        guard("context", out, || Ok(b.context()));
        guard("revocation_identifiers", out, || Ok(b.revocation_identifiers()));
        guard("external_public_keys", out, || Ok(b.external_public_keys()));
        for i in [0usize, 1, 2, 3, usize::MAX] {
            guard(&format!("print_block_source({i})"), out, || b.print_block_source(i).map_err(e));
            guard(&format!("block_version({i})"), out, || b.block_version(i).map_err(e));
            guard(&format!("block_symbols({i})"), out, || b.block_symbols(i).map_err(e));
            guard(&format!("block_public_keys({i})"), out, || b.block_public_keys(i).map_err(e));
            guard(&format!("block_external_key({i})"), out, || b.block_external_key(i).map_err(e));
        }
        guard("append", out, || b.append(BlockBuilder::new().code("z(1);").unwrap()).map_err(e));
        guard("seal", out, || b.seal().map_err(e));
        guard("third_party_request", out, || b.third_party_request().map(|_| ()).map_err(e));
        let a = guard("authorizer", out, || AuthorizerBuilder::new().code("allow if true;").map_err(e)?.limits(limits()).build(b).map_err(e));
        if let Some(mut a) = a {
            guard("dump_code(before)", out, || Ok(a.dump_code()));
            guard("print_world(before)", out, || Ok(a.print_world()));
            guard("snapshot(before)", out, || snapshot_roundtrip(&a));
            guard("authorize", out, || a.authorize().map_err(e));
            guard("query", out, || a.query::<_, (String,), _>("q($x) <- user($x)").map_err(e));
            guard("query_all", out, || a.query_all::<_, (String,), _>("q($x) <- user($x)").map_err(e));
            guard("dump_code", out, || Ok(a.dump_code()));
            guard("print_world", out, || Ok(a.print_world()));
            guard("snapshot", out, || snapshot_roundtrip(&a));
        }
    }
}

fn snapshot_roundtrip(a: &Authorizer) -> Result<(), String> {
    let s = a.to_raw_snapshot().map_err(|e| format!("{e:?}"))?;
    let mut b = Authorizer::from_raw_snapshot(&s).map_err(|e| format!("{e:?}"))?;
    let _ = b.authorize();
    let _ = b.dump_code();
    Ok(())
}

/// an authorizer snapshot whose saved token block (`snapshot_block`) or authorizer block
/// (`snapshot_authorizer`) carries the fault; Err = the fault cannot be expressed there
fn mint_snapshot(fault: &str, pos: &str, case: &Value) -> Result<Vec<u8>, String> {
    let e = |e: biscuit_auth::error::Token| format!("{e:?}");
    let root = keys::keypair("R", "ed");
    let nk = keys::keypair("K1", "ed");
    if fault.starts_with("eval") {
        let extra = eval_source(case);
        let (tsrc, asrc) = if pos == "snapshot_authorizer" { (BASE.to_string(), format!("{extra} allow if true;")) } else { (format!("{BASE} {extra}"), "allow if true;".to_string()) };
        let tok = Biscuit::builder().code(&tsrc).map_err(e)?.build_with_key_pair(&root, SymbolTable::new(), &nk).map_err(e)?;
        let a = AuthorizerBuilder::new().code(&asrc).map_err(e)?.limits(limits()).build(&tok).map_err(e)?;
        return a.to_raw_snapshot().map_err(|e| format!("{e:?}"));
    }
    let tok = Biscuit::builder().code(BASE).map_err(e)?.build_with_key_pair(&root, SymbolTable::new(), &nk).map_err(e)?;
    let a = AuthorizerBuilder::new().code("allow if true;").map_err(e)?.limits(limits()).build(&tok).map_err(e)?;
    let raw = a.to_raw_snapshot().map_err(|e| format!("{e:?}"))?;
    let mut snap = schema::AuthorizerSnapshot::decode(&raw[..]).map_err(|e| format!("{e:?}"))?;
    if fault.starts_with("world_") {
        // faults of the saved world itself
        match fault {
            "world_version_0" => snap.world.version = Some(0),
            "world_version_2" => snap.world.version = Some(2),
            "world_version_7" => snap.world.version = Some(7),
            "world_version_absent" => snap.world.version = None,
            "world_iterations_max" => snap.world.iterations = u64::MAX,
            "world_limits_zero" => { snap.limits.max_facts = 0; snap.limits.max_iterations = 0; snap.limits.max_time = 0; }
            "world_execution_time_max" => snap.execution_time = u64::MAX,
            _ => {
                // a generated fact whose origin names a block that does not exist
                let f = snap.world.blocks[0].facts_v2[0].clone();
                snap.world.generated_facts.push(schema::GeneratedFacts {
                    origins: vec![schema::Origin { content: Some(schema::origin::Content::Origin(4000000000)) }],
                    facts: vec![f],
                });
            }
        }
        return Ok(snap.encode_to_vec());
    }
    let fb = schema::Block::decode(&faulty_payload(fault, "authority")[..]).map_err(|_| "the fault is not a block".to_string())?;
    if fb.symbols.len() != base_block(false).symbols.len() {
        snap.world.symbols = fb.symbols.clone();
    }
    if !fb.public_keys.is_empty() {
        snap.world.public_keys = fb.public_keys.clone();
    }
    let target = if pos == "snapshot_authorizer" { &mut snap.world.authorizer_block } else { &mut snap.world.blocks[0] };
    target.facts_v2 = fb.facts_v2;
    target.rules_v2 = fb.rules_v2;
    target.checks_v2 = fb.checks_v2;
    target.scope = fb.scope;
    target.version = fb.version;
    Ok(snap.encode_to_vec())
}

/// every public operation on an authorizer (and an authorizer builder) obtained from untrusted snapshot bytes
pub fn sweep_snapshot(bytes: &[u8], out: &mut Vec<(String, String)>) {
    let e = |e: biscuit_auth::error::Token| format!("{e:?}");
    guard("from_base64_snapshot", out, || Authorizer::from_base64_snapshot(&base64::encode_config(bytes, base64::URL_SAFE)).map(|_| ()).map_err(e));
    let b = guard("builder_from_raw_snapshot", out, || AuthorizerBuilder::from_raw_snapshot(bytes).map_err(e));
    if let Some(b) = b {
        guard("builder.dump_code", out, || Ok(b.dump_code()));
        guard("builder.to_raw_snapshot", out, || b.clone().to_raw_snapshot().map(|_| ()).map_err(|e| format!("{e:?}")));
        if let Some(mut a) = guard("builder.build_unauthenticated", out, || b.clone().build_unauthenticated().map_err(e)) {
            guard("builder.authorize", out, || a.authorize().map_err(e));
        }
    }
    let a = guard("from_raw_snapshot", out, || Authorizer::from_raw_snapshot(bytes).map_err(e));
    if let Some(mut a) = a {
        guard("dump_code(before)", out, || Ok(a.dump_code()));
        guard("print_world(before)", out, || Ok(a.print_world()));
        guard("snapshot(before)", out, || snapshot_roundtrip(&a));
        guard("run", out, || a.run().map_err(e));
        guard("authorize", out, || a.authorize().map_err(e));
        guard("query", out, || a.query::<_, (String,), _>("q($x) <- user($x)").map_err(e));
        guard("query_all", out, || a.query_all::<_, (String,), _>("q($x) <- user($x)").map_err(e));
        guard("dump_code", out, || Ok(a.dump_code()));
        guard("print_world", out, || Ok(a.print_world()));
        guard("snapshot", out, || snapshot_roundtrip(&a));
        guard("to_base64_snapshot", out, || a.to_base64_snapshot().map(|_| ()).map_err(|e| format!("{e:?}")));
    }
}

fn replay_snapshot_case(idx: usize, case: &Value, fault: &str, pos: &str) -> Value {
    let mut obs: Vec<(String, String)> = Vec::new();
    let mut problems: Vec<String> = Vec::new();
    match util::catch(|| mint_snapshot(fault, pos, case)) {
        Ok(Ok(bytes)) => {
            sweep_snapshot(&bytes, &mut obs);
            for (k, v) in &obs {
                if v.starts_with("PANIC") || v.starts_with("HANG") {
                    problems.push(format!("{k}: {v}"));
                }
            }
            let get = |n: &str| obs.iter().find(|(k, _)| k == n).map(|(_, v)| v.clone());
            if fault == "none" && get("authorize").as_deref() != Some("ok") {
                problems.push(format!("the fault-free snapshot is not served: from_raw_snapshot {:?} authorize {:?}", get("from_raw_snapshot"), get("authorize")));
            }
        }
        // the fault cannot be placed in a snapshot (not a block) or the library refuses to build it: nothing to sweep
        Ok(Err(e)) => obs.push(("build".to_string(), format!("refused: {}", e.chars().take(120).collect::<String>()))),
        Err(p) => problems.push(format!("building the snapshot PANICKED: {p}")),
    }
    json!({"idx": idx, "ok": problems.is_empty(), "problems": problems,
           "observed": obs.iter().filter(|(k, _)| ["build", "from_raw_snapshot", "authorize"].contains(&k.as_str())).map(|(k, v)| json!([k, v])).collect::<Vec<_>>()})
}

/// Datalog source as an entry point: every parser entry point on the text, then - when it is accepted - a
/// token and an authorizer built from it
fn replay_source_case(idx: usize, case: &Value) -> Value {
    use std::convert::TryFrom;
    let src = case["c"]["src"].as_str().unwrap();
    let e = |e: biscuit_auth::error::Token| format!("{e:?}");
    let mut obs: Vec<(String, String)> = Vec::new();
    let mut problems: Vec<String> = Vec::new();
    guard("Fact::try_from", &mut obs, || biscuit_auth::builder::Fact::try_from(src).map(|x| { let _ = x.to_string(); }).map_err(e));
    guard("Rule::try_from", &mut obs, || biscuit_auth::builder::Rule::try_from(src).map(|x| { let _ = x.to_string(); }).map_err(e));
    guard("Check::try_from", &mut obs, || biscuit_auth::builder::Check::try_from(src).map(|x| { let _ = x.to_string(); }).map_err(e));
    guard("Policy::try_from", &mut obs, || biscuit_auth::builder::Policy::try_from(src).map(|x| { let _ = x.to_string(); }).map_err(e));
    let with_semi = format!("{src};");
    let bb = guard("BlockBuilder::code", &mut obs, || BlockBuilder::new().code(&with_semi).map_err(e));
    guard("AuthorizerBuilder::code", &mut obs, || AuthorizerBuilder::new().code(&with_semi).map(|a| { let _ = a.dump_code(); }).map_err(e));
    guard("BiscuitBuilder::code", &mut obs, || Biscuit::builder().code(&with_semi).map(|a| { let _ = a.to_string(); }).map_err(e));
    if let Some(bb) = bb {
        let t = guard("build", &mut obs, || Biscuit::builder().merge(bb.clone()).build_with_key_pair(&keys::keypair("R", "ed"), SymbolTable::new(), &keys::keypair("K1", "ed")).map_err(e));
        if let Some(t) = t {
            if let Ok(bytes) = t.to_vec() {
                sweep(&bytes, &mut obs);
            }
        }
    }
    for (k, v) in &obs {
        if v.starts_with("PANIC") || v.starts_with("HANG") {
            problems.push(format!("{k}: {v}"));
        }
    }
    json!({"idx": idx, "ok": problems.is_empty(), "problems": problems,
           "observed": obs.iter().filter(|(k, _)| ["BlockBuilder::code", "build", "authorize"].contains(&k.as_str())).map(|(k, v)| json!([k, v])).collect::<Vec<_>>()})
}

fn replay_case(c: &mut Concretiser, idx: usize, case: &Value) -> Value {
    let fault = case["c"]["fault"].as_str().unwrap();
    let pos = case["c"]["pos"].as_str().unwrap();
    if pos == "source" {
        return replay_source_case(idx, case);
    }
    if pos.starts_with("snapshot_") {
        return replay_snapshot_case(idx, case, fault, pos);
    }
    let mut obs: Vec<(String, String)> = Vec::new();
    let mut problems: Vec<String> = Vec::new();
    let minted = if fault.starts_with("eval") {
        let src = eval_source(case);
        match util::catch(|| mint_source(&src, pos)) {
            Ok(Ok(b)) => Ok(b),
            // source the parser or the builder refuses is an answer, not a crash: nothing to evaluate
            Ok(Err(e)) => return json!({"idx": idx, "ok": true, "problems": problems, "observed": [["build", format!("refused: {}", e.chars().take(120).collect::<String>())]]}),
            Err(p) => Err(format!("building {src:?} PANICKED: {p}")),
        }
    } else {
        util::catch(|| mint(c, fault, pos))
    };
    match minted {
        Err(p) if fault.starts_with("eval") => problems.push(p),
        Err(p) => problems.push(format!("harness could not mint the token: {p}")),
        Ok(bytes) => {
            sweep(&bytes, &mut obs);
            let get = |n: &str| obs.iter().find(|(k, _)| k == n).map(|(_, v)| v.clone());
            for (k, v) in &obs {
                if v.starts_with("PANIC") || v.starts_with("HANG") {
                    problems.push(format!("{k}: {v}"));
                }
            }
            let from_ok = get("from").map(|v| v == "ok").unwrap_or(false);
            let loaded = get("authorizer").map(|v| v == "ok").unwrap_or(false);
            let ran = get("authorize").map(|v| v == "ok").unwrap_or(false);
            if fault == "none" && !(from_ok && loaded && ran) {
                problems.push(format!("the fault-free token is not served: from {:?} authorizer {:?} authorize {:?}", get("from"), get("authorizer"), get("authorize")));
            }
            if case["refuse_before_run"].as_bool().unwrap() && loaded {
                problems.push("the faulty block was loaded into an authorizer instead of being refused before evaluation".to_string());
            }
            // the verified and the unverified reader agree on what is decodable
            if let (Some(a), Some(b)) = (get("from"), get("unverified_from")) {
                if (a == "ok") != (b == "ok") {
                    problems.push(format!("Biscuit::from says {a}, UnverifiedBiscuit::from says {b}"));
                }
            }
        }
    }
    json!({"idx": idx, "ok": problems.is_empty(), "problems": problems,
           "observed": obs.iter().filter(|(k, _)| ["from", "authorizer", "authorize"].contains(&k.as_str())).map(|(k, v)| json!([k, v])).collect::<Vec<_>>()})
}

pub fn cmd_replay(input: &str, output: &str) {
    util::quiet_panics();
    let cases = util::read_ndjson(input);
    let rows = util::par_map(cases, || Concretiser::new(HashMap::new()), |c, i, case| replay_case(c, i, case));
    util::write_ndjson(output, &rows);
    let bad = rows.iter().filter(|r| !r["ok"].as_bool().unwrap()).count();
    println!("ingest-replay: {} cases, {} disagreements", rows.len(), bad);
}

// ------------------------------------------------------------------ byte-level corruption
fn mutate(rng: &mut StdRng, src: &[u8]) -> Vec<u8> {
    let mut v = src.to_vec();
    let n = rng.gen_range(1..4);
    for _ in 0..n {
        if v.is_empty() {
            v.push(rng.gen());
            continue;
        }
        match rng.gen_range(0..6) {
            0 => { let i = rng.gen_range(0..v.len()); v[i] ^= 1 << rng.gen_range(0..8); }
            1 => { let i = rng.gen_range(0..v.len()); v.truncate(i); }
            2 => { let i = rng.gen_range(0..=v.len()); v.insert(i, rng.gen()); }
            3 => { let i = rng.gen_range(0..v.len()); v[i] = [0x00, 0xff, 0x7f, 0x80][rng.gen_range(0..4)]; }
            4 => { let i = rng.gen_range(0..v.len()); let j = rng.gen_range(i..v.len()); let chunk: Vec<u8> = v[i..=j].to_vec(); v.splice(i..i, chunk); }
            _ => { let i = rng.gen_range(0..v.len()); v.remove(i); }
        }
    }
    v
}

pub fn cmd_fuzz(n: usize, output: &str) {
    util::quiet_panics();
    let root = keys::keypair("R", "ed");
    let nk = keys::keypair("K1", "ed");
    // seeds: tokens (plain, third-party, sealed), request, third-party block, snapshot, policies, key strings, datalog
    let t1 = Biscuit::builder().code(BASE).unwrap().build_with_key_pair(&root, SymbolTable::new(), &nk).unwrap();
    let req = t1.third_party_request().unwrap();
    let tpb = req.create_block(&keys::keypair("E1", "ed").private(), BlockBuilder::new().code("g(\"x\"); check if g($y) trusting previous;").unwrap()).unwrap();
    let t2 = t1.append_third_party_with_keypair(keys::keypair("E1", "ed").public(), tpb.clone(), keys::keypair("K2", "p256")).unwrap();
    let t3 = t2.seal().unwrap();
    let mut a = AuthorizerBuilder::new().code("allow if user($u); deny if true;").unwrap().limits(limits()).build(&t2).unwrap();
    let _ = a.authorize();
    let snap = a.to_raw_snapshot().unwrap();
    let pol = a.save().unwrap().serialize().unwrap();
    let seeds: Vec<(&str, Vec<u8>)> = vec![
        ("token", t1.to_vec().unwrap()),
        ("token", t2.to_vec().unwrap()),
        ("token", t3.to_vec().unwrap()),
        ("request", t1.third_party_request().unwrap().serialize().unwrap()),
        ("tpblock", tpb.serialize().unwrap()),
        ("snapshot", snap),
        ("policies", pol),
        ("pubkey_str", root.public().print().into_bytes()),
        ("privkey_str", root.private().to_prefixed_string().into_bytes()),
        ("pem", root.to_private_key_pem().unwrap().as_bytes().to_vec()),
        ("datalog", BASE.as_bytes().to_vec()),
    ];
    let cases: Vec<Value> = (0..n).map(|i| json!(i)).collect();
    let seeds2 = seeds.clone();
    let seed = keys::seed();
    let rows = util::par_map(cases, || (), move |_, i, _| {
        let mut rng = StdRng::seed_from_u64(seed.wrapping_mul(31).wrapping_add(i as u64));
        let (kind, src) = &seeds2[i % seeds2.len()];
        let data = mutate(&mut rng, src);
        let mut obs: Vec<(String, String)> = Vec::new();
        let e = |e: biscuit_auth::error::Token| format!("{e:?}");
        match *kind {
            "token" => sweep(&data, &mut obs),
            "request" => { guard("request", &mut obs, || biscuit_auth::ThirdPartyRequest::deserialize(&data).map_err(e).and_then(|r| r.create_block(&keys::keypair("E1", "ed").private(), BlockBuilder::new()).map(|_| ()).map_err(e))); }
            "tpblock" => {
                let t = Biscuit::from(seeds2[0].1.clone(), keys::keypair("R", "ed").public()).unwrap();
                guard("append_third_party", &mut obs, || biscuit_auth::ThirdPartyBlock::verif_from_bytes(&data).and_then(|b| t.append_third_party(keys::keypair("E1", "ed").public(), b)).map(|_| ()).map_err(e));
                let u = UnverifiedBiscuit::from(seeds2[0].1.clone()).unwrap();
                guard("u.append_third_party", &mut obs, || u.append_third_party(&data).map(|_| ()).map_err(e));
            }
            "snapshot" => { guard("from_raw_snapshot", &mut obs, || Authorizer::from_raw_snapshot(&data).map_err(e).and_then(|mut a| { let _ = a.authorize(); let _ = a.dump_code(); let _ = a.print_world(); a.to_raw_snapshot().map(|_| ()).map_err(|e| format!("{e:?}")) })); }
            "policies" => { guard("policies", &mut obs, || Authorizer::from(&data).map_err(e).and_then(|mut a| { let _ = a.authorize(); Ok(()) })); }
            "pubkey_str" => { guard("pubkey_str", &mut obs, || { use std::str::FromStr; biscuit_auth::PublicKey::from_str(&String::from_utf8_lossy(&data)).map(|_| ()).map_err(|e| format!("{e:?}")) }); }
            "privkey_str" => { guard("privkey_str", &mut obs, || { use std::str::FromStr; biscuit_auth::PrivateKey::from_str(&String::from_utf8_lossy(&data)).map(|_| ()).map_err(|e| format!("{e:?}")) }); }
            "pem" => { guard("pem", &mut obs, || biscuit_auth::KeyPair::from_private_key_pem(&String::from_utf8_lossy(&data)).map(|_| ()).map_err(|e| format!("{e:?}"))); }
            _ => { guard("datalog", &mut obs, || BlockBuilder::new().code(String::from_utf8_lossy(&data)).map(|b| { let _ = b.to_string(); }).map_err(e)); }
        }
        let bad: Vec<String> = obs.iter().filter(|(_, v)| v.starts_with("PANIC") || v.starts_with("HANG")).map(|(k, v)| format!("{k}: {v}")).collect();
        json!({"idx": i, "kind": kind, "ok": bad.is_empty(), "problems": bad, "input_hex": if bad.is_empty() { Value::Null } else { json!(hex::encode(&data)) }, "ops": obs.len()})
    });
    util::write_ndjson(output, &rows);
    let bad = rows.iter().filter(|r| !r["ok"].as_bool().unwrap()).count();
    println!("ingest-fuzz: {} inputs, {} crashes", rows.len(), bad);
}

/// crash-isolated probes (stack overflow aborts the process): run as `vh ingest-child <what> <n>`
pub fn cmd_child(what: &str, n: usize) {
    match what {
        "parens" => {
            let src = format!("check if {}1{} > 0;", "(".repeat(n), ")".repeat(n));
            let r = BlockBuilder::new().code(&src);
            println!("{}", json!({"probe": what, "n": n, "result": if r.is_ok() { "ok" } else { "err" }}));
        }
        "nested_array_source" => {
            let src = format!("f({}1{});", "[".repeat(n), "]".repeat(n));
            let r = BlockBuilder::new().code(&src);
            println!("{}", json!({"probe": what, "n": n, "result": if r.is_ok() { "ok" } else { "err" }}));
        }
        "negations" => {
            let src = format!("check if {}true;", "!".repeat(n));
            let r = BlockBuilder::new().code(&src);
            println!("{}", json!({"probe": what, "n": n, "result": if r.is_ok() { "ok" } else { "err" }}));
        }
        o => panic!("unknown probe {o}"),
    }
}
