//! C17: replay of spec/KeyCodec.tla (encodings x corruption decision table, ideal signatures).
use crate::keys;
use crate::util;
use biscuit_auth::builder::Algorithm;
use biscuit_auth::format::schema;
use biscuit_auth::{KeyPair, PrivateKey, PublicKey};
use serde_json::{json, Value};
use std::str::FromStr;

fn alg_of(a: &str) -> Algorithm {
    keys::alg_of(a)
}
fn other(a: &str) -> &'static str {
    if a == "ed" { "p256" } else { "ed" }
}

/// encoded form: bytes or text
#[derive(Clone)]
enum Enc {
    B(Vec<u8>),
    S(String),
    P(schema::PublicKey),
}

fn corrupt(e: &Enc, cor: &str, enc: &str) -> Option<Enc> {
    Some(match (e, cor) {
        (_, "none") => e.clone(),
        (Enc::B(b), "truncate") => Enc::B(b[..b.len().saturating_sub(1)].to_vec()),
        (Enc::B(b), "extend") => { let mut v = b.clone(); v.push(0); Enc::B(v) }
        (Enc::B(_), "empty") => Enc::B(vec![]),
        (Enc::B(b), "flip_first") => { let mut v = b.clone(); v[0] ^= 1; Enc::B(v) }
        (Enc::B(b), "flip_last") => { let mut v = b.clone(); let n = v.len() - 1; v[n] ^= 1; Enc::B(v) }
        // the public key is the last field of the PKCS#8 document of a private key: 10 bytes from the end is inside it
        (Enc::B(b), "flip_pubkey") => { let mut v = b.clone(); let n = v.len() - 10; v[n] ^= 1; Enc::B(v) }
        (Enc::S(s), "flip_pubkey") if enc == "pem" => {
            // the same flip on the DER inside the PEM armour
            let lines: Vec<&str> = s.lines().collect();
            let body: String = lines[1..lines.len() - 1].concat();
            let mut der = base64::decode(&body).ok()?;
            let n = der.len() - 10;
            der[n] ^= 1;
            let b64 = base64::encode(&der);
            let wrapped: Vec<String> = b64.as_bytes().chunks(64).map(|c| String::from_utf8(c.to_vec()).unwrap()).collect();
            Enc::S(format!("{}\n{}\n{}\n", lines[0], wrapped.join("\n"), lines[lines.len() - 1]))
        }
        (Enc::S(s), "truncate") => {
            if enc == "pem" {
                // drop one character of the base64 body
                let mut lines: Vec<String> = s.lines().map(|l| l.to_string()).collect();
                let l = lines[1].len();
                lines[1].truncate(l - 1);
                Enc::S(lines.join("\n") + "\n")
            } else {
                Enc::S(s[..s.len() - 1].to_string())
            }
        }
        (Enc::S(s), "extend") => {
            if enc == "pem" {
                let mut lines: Vec<String> = s.lines().map(|l| l.to_string()).collect();
                lines[1].push('A');
                Enc::S(lines.join("\n") + "\n")
            } else {
                Enc::S(format!("{s}0"))
            }
        }
        (Enc::S(_), "empty") => Enc::S(String::new()),
        (Enc::S(s), "flip_first") | (Enc::S(s), "flip_last") => {
            // change one hex digit / base64 character of the key material
            let mut chars: Vec<char> = s.chars().collect();
            let idxs: Vec<usize> = if enc == "pem" {
                let start = s.find('\n').unwrap() + 1;
                let end = s[start..].find("\n-----").map(|x| x + start).unwrap();
                (start..end).filter(|i| chars[*i] != '\n' && chars[*i] != '=').collect()
            } else {
                let start = s.find('/').map(|x| x + 1).unwrap_or(0);
                (start..chars.len()).collect()
            };
            let i = if cor == "flip_first" { idxs[0] } else { idxs[idxs.len() - 2] };
            chars[i] = if enc == "pem" {
                if chars[i] == 'A' { 'B' } else { 'A' }
            } else if chars[i] == '0' {
                '1'
            } else {
                '0'
            };
            Enc::S(chars.into_iter().collect())
        }
        (Enc::S(s), "wrong_prefix") => {
            if let Some(i) = s.find('/') {
                let p = &s[..i];
                let np = if p.contains("ed25519") { p.replace("ed25519", "secp256r1") } else { p.replace("secp256r1", "ed25519") };
                Enc::S(format!("{np}{}", &s[i..]))
            } else { return None }
        }
        (Enc::S(s), "unknown_prefix_a") | (Enc::S(s), "unknown_prefix_b") | (Enc::S(s), "unknown_prefix_c") => {
            if let Some(i) = s.find('/') {
                let np = match cor { "unknown_prefix_a" => "rsa", "unknown_prefix_b" => "ed25519x", _ => "" };
                // keep what precedes the algorithm name (e.g. "private-key-")? the forms are "<alg>/<hex>" and "<alg>-private/<hex>"
                let p = &s[..i];
                let np = if p.ends_with("-private") { format!("{np}-private") } else { np.to_string() };
                Enc::S(format!("{np}{}", &s[i..]))
            } else { return None }
        }
        (Enc::P(p), "unknown_prefix_a") => { let mut q = p.clone(); q.algorithm = 2; Enc::P(q) }
        (Enc::P(p), "unknown_prefix_b") => { let mut q = p.clone(); q.algorithm = -1; Enc::P(q) }
        (Enc::P(p), "unknown_prefix_c") => { let mut q = p.clone(); q.algorithm = 255; Enc::P(q) }
        (Enc::P(p), "wrong_prefix") => { let mut q = p.clone(); q.algorithm = 1 - q.algorithm; Enc::P(q) }
        (Enc::P(p), "truncate") => { let mut q = p.clone(); q.key.pop(); Enc::P(q) }
        (Enc::P(p), "extend") => { let mut q = p.clone(); q.key.push(0); Enc::P(q) }
        (Enc::P(p), "empty") => { let mut q = p.clone(); q.key.clear(); Enc::P(q) }
        (Enc::P(p), "flip_first") => { let mut q = p.clone(); q.key[1] ^= 1; Enc::P(q) }
        (Enc::P(p), "flip_last") => { let mut q = p.clone(); let n = q.key.len() - 1; q.key[n] ^= 1; Enc::P(q) }
        _ => return None,
    })
}

fn e<T, E: std::fmt::Debug>(r: Result<T, E>) -> Result<T, String> {
    r.map_err(|e| format!("{e:?}"))
}

fn encode_private(k: &PrivateKey, enc: &str) -> Result<Enc, String> {
    Ok(match enc {
        "raw" => Enc::B(k.to_bytes().to_vec()),
        "hex" => Enc::S(k.to_bytes_hex()),
        "prefixed" => Enc::S(k.to_prefixed_string()),
        "der" => Enc::B(e(k.to_der())?.to_vec()),
        "pem" => Enc::S(e(k.to_pem())?.to_string()),
        o => return Err(format!("no private encoding {o}")),
    })
}
fn decode_private(x: &Enc, enc: &str, as_alg: Option<&str>) -> Result<PrivateKey, String> {
    match (enc, x, as_alg) {
        ("raw", Enc::B(b), Some(a)) => e(PrivateKey::from_bytes(b, alg_of(a))),
        ("hex", Enc::S(s), Some(a)) => e(PrivateKey::from_bytes_hex(s, alg_of(a))),
        ("prefixed", Enc::S(s), None) => e(PrivateKey::from_str(s)),
        ("der", Enc::B(b), Some(a)) => e(PrivateKey::from_der_with_algorithm(b, alg_of(a))),
        ("der", Enc::B(b), None) => e(PrivateKey::from_der(b)),
        ("pem", Enc::S(s), Some(a)) => e(PrivateKey::from_pem_with_algorithm(s, alg_of(a))),
        ("pem", Enc::S(s), None) => e(PrivateKey::from_pem(s)),
        _ => Err("no such decoder".to_string()),
    }
}
fn encode_public(k: &PublicKey, enc: &str) -> Result<Enc, String> {
    Ok(match enc {
        "raw" => Enc::B(k.to_bytes()),
        "hex" => Enc::S(k.to_bytes_hex()),
        "prefixed" => Enc::S(k.print()),
        "der" => Enc::B(e(k.to_der())?),
        "pem" => Enc::S(e(k.to_pem())?),
        "proto" => Enc::P(k.to_proto()),
        o => return Err(format!("no public encoding {o}")),
    })
}
fn decode_public(x: &Enc, enc: &str, as_alg: Option<&str>) -> Result<PublicKey, String> {
    match (enc, x, as_alg) {
        ("raw", Enc::B(b), Some(a)) => e(PublicKey::from_bytes(b, alg_of(a))),
        ("hex", Enc::S(s), Some(a)) => e(PublicKey::from_bytes_hex(s, alg_of(a))),
        ("prefixed", Enc::S(s), None) => e(PublicKey::from_str(s)),
        ("der", Enc::B(b), Some(a)) => e(PublicKey::from_der_with_algorithm(b, alg_of(a))),
        ("der", Enc::B(b), None) => e(PublicKey::from_der(b)),
        ("pem", Enc::S(s), Some(a)) => e(PublicKey::from_pem_with_algorithm(s, alg_of(a))),
        ("pem", Enc::S(s), None) => e(PublicKey::from_pem(s)),
        ("proto", Enc::P(p), None) => e(PublicKey::from_proto(p)),
        _ => Err("no such decoder".to_string()),
    }
}

fn replay_key(case: &Value, nkeys: usize) -> Vec<String> {
    let c = &case["c"];
    let (enc, kind, alg, das, cor) = (c["enc"].as_str().unwrap(), c["kind"].as_str().unwrap(), c["alg"].as_str().unwrap(), c["as"].as_str().unwrap(), c["cor"].as_str().unwrap());
    let expect = case["expect"].as_str().unwrap();
    let as_alg: Option<&str> = match das { "same" => Some(alg), "other" => Some(other(alg)), _ => None };
    let mut problems = Vec::new();
    for i in 0..nkeys {
        let kp = keys::keypair(&format!("codec{i}"), alg);
        let r = util::catch(|| -> Result<(bool, String), String> {
            if kind == "private" {
                let k = kp.private();
                let x = encode_private(&k, enc)?;
                let Some(x) = corrupt(&x, cor, enc) else { return Ok((true, "n/a".into())) };
                match decode_private(&x, enc, as_alg) {
                    Ok(k2) => {
                        let same = k2.to_bytes().to_vec() == k.to_bytes().to_vec() && k2.public().to_bytes() == k.public().to_bytes()
                            && format!("{:?}", k2.algorithm()) == format!("{:?}", k.algorithm());
                        // a private key always yields the same public key
                        let kp2 = KeyPair::from(&k2);
                        if kp2.public().to_bytes() != k2.public().to_bytes() {
                            return Err("KeyPair::from(private).public() differs from private.public()".into());
                        }
                        Ok((same, "ok".into()))
                    }
                    Err(e) => Ok((false, format!("err {e}"))),
                }
            } else {
                let k = kp.public();
                let x = encode_public(&k, enc)?;
                let Some(x) = corrupt(&x, cor, enc) else { return Ok((true, "n/a".into())) };
                match decode_public(&x, enc, as_alg) {
                    Ok(k2) => Ok((k2 == k, "ok".into())),
                    Err(e) => Ok((false, format!("err {e}"))),
                }
            }
        });
        match r {
            Err(p) => problems.push(format!("key {i}: PANIC {p}")),
            Ok(Err(e)) => problems.push(format!("key {i}: {e}")),
            Ok(Ok((same, how))) => {
                if how == "n/a" { continue; }
                let ok = match expect {
                    "RoundTrips" => same && how == "ok",
                    "MustFail" => how.starts_with("err"),
                    "FailOrDifferent" => !same,
                    _ => true,
                };
                if !ok {
                    problems.push(format!("key {i}: decoder returned {} (same key: {same}), the table says {expect}", if how == "ok" { "a key".to_string() } else { how.chars().take(80).collect() }));
                }
            }
        }
    }
    problems.truncate(3);
    problems
}

/// encodings of the ed25519 points of small order (orders 4, 1, 8, 8, 2 and two non-canonical forms)
const ED_SMALL_ORDER: [&str; 7] = [
    "0000000000000000000000000000000000000000000000000000000000000000",
    "0100000000000000000000000000000000000000000000000000000000000000",
    "26e8958fc2b227b045c3f489f2ef98f0d5dfac05d3c63339b13802886d53fc05",
    "c7176a703d4dd84fba3c0b760d10670f2a2053fa2c39ccc64ec7fd7792ac037a",
    "ecffffffffffffffffffffffffffffffffffffffffffffffffffffffffffff7f",
    "0000000000000000000000000000000000000000000000000000000000000080",
    "0100000000000000000000000000000000000000000000000000000000000080",
];

/// public keys no private key generates; a key the library refuses to decode is fine (nothing verifies under it)
fn weak_keys(alg: &str) -> Vec<PublicKey> {
    let encs: Vec<Vec<u8>> = if alg == "ed" {
        ED_SMALL_ORDER.iter().map(|h| hex::decode(h).unwrap()).collect()
    } else {
        vec![vec![0u8], vec![0u8; 33], { let mut v = vec![0u8; 33]; v[0] = 2; v }]
    };
    encs.iter().filter_map(|b| PublicKey::from_bytes(b, alg_of(alg)).ok()).collect()
}

/// signatures made without a private key
fn crafted_sigs(alg: &str) -> Vec<Vec<u8>> {
    if alg == "ed" {
        ED_SMALL_ORDER.iter().map(|h| { let mut v = hex::decode(h).unwrap(); v.extend_from_slice(&[0u8; 32]); v }).collect()
    } else {
        vec![
            vec![0x30, 0x06, 0x02, 0x01, 0x00, 0x02, 0x01, 0x00],
            vec![0x30, 0x06, 0x02, 0x01, 0x01, 0x02, 0x01, 0x01],
            vec![0x30, 0x06, 0x02, 0x01, 0x00, 0x02, 0x01, 0x01],
            vec![0u8; 64],
        ]
    }
}

fn replay_sig(case: &Value, nkeys: usize) -> Vec<String> {
    use biscuit_auth::datalog::SymbolTable;
    use biscuit_auth::format::SerializedBiscuit;
    use biscuit_auth::Biscuit;
    use prost::Message;
    let s = &case["s"];
    let alg = s["alg"].as_str().unwrap();
    let want = case["verifies"].as_bool().unwrap();
    let mut problems = Vec::new();
    for i in 0..nkeys {
        // the signature under test is the authority block signature of a one-block token:
        // signer = root key, message = the block's signed payload, verified by the library itself
        let signer = keys::keypair(&format!("sig{i}"), alg);
        let verifiers: Vec<PublicKey> = match s["key"].as_str().unwrap() {
            "same" => vec![keys::keypair(&format!("sig{i}"), alg).public()],
            "other" => vec![keys::keypair(&format!("sig-other{i}"), alg).public()],
            "weak" => weak_keys(alg),
            _ => vec![keys::keypair(&format!("sig{i}"), other(alg)).public()],
        };
        let r = util::catch(|| -> Result<(bool, bool), String> {
            let t = e(Biscuit::builder().code(format!("f({i});")).and_then(|b| b.build_with_key_pair(&signer, SymbolTable::new(), &keys::keypair("nk", "ed"))))?;
            let mut wire = e(schema::Biscuit::decode(&e(t.to_vec())?[..]))?;
            let sig = wire.authority.signature.clone();
            let sigs: Vec<Vec<u8>> = if s["sig"] == "crafted" { crafted_sigs(alg) } else { vec![match s["sig"].as_str().unwrap() {
                "intact" => sig.clone(),
                "truncate" => sig[..sig.len() - 1].to_vec(),
                "extend" => { let mut v = sig.clone(); v.push(0); v }
                "empty" => vec![],
                "flip_first" => { let mut v = sig.clone(); v[if alg == "ed" { 0 } else { 5 }] ^= 1; v }
                "flip_last" => { let mut v = sig.clone(); let n = v.len() - 1; v[n] ^= 1; v }
                _ => crate::layout::reencode(alg, &sig),
            }] };
            match s["msg"].as_str().unwrap() {
                "same" => {}
                "altered" => { let n = wire.authority.block.len() - 1; wire.authority.block[n] ^= 1; }
                _ => wire.authority.block.clear(),
            }
            // every (signature, verifier key) combination of the case: "verifies" if any of them does
            let (mut lib, mut lib2) = (false, false);
            for sg in sigs.iter() {
                wire.authority.signature = sg.clone();
                let bytes = wire.encode_to_vec();
                for vk in verifiers.iter() {
                    lib |= SerializedBiscuit::from_slice(&bytes, *vk).is_ok();
                    lib2 |= Biscuit::from(&bytes, *vk).is_ok();
                }
            }
            Ok((lib, lib2))
        });
        match r {
            Err(p) => problems.push(format!("PANIC {p}")),
            Ok(Err(e)) => problems.push(format!("harness: {e}")),
            Ok(Ok((lib, lib2))) => {
                if lib != want { problems.push(format!("the library's signature check gives {lib}, the ideal functionality says {want}")); }
                if lib2 && !want { problems.push("Biscuit::from accepts a token whose signature must not verify".to_string()); }
            }
        }
    }
    problems.truncate(3);
    problems
}

fn replay_case(idx: usize, case: &Value, nkeys: usize) -> Value {
    let problems = if case.get("c").is_some() { replay_key(case, nkeys) } else { replay_sig(case, nkeys) };
    json!({"idx": idx, "ok": problems.is_empty(), "problems": problems})
}

pub fn cmd_replay(input: &str, output: &str, nkeys: usize) {
    util::quiet_panics();
    let cases = util::read_ndjson(input);
    let rows = util::par_map(cases, || (), move |_, i, case| replay_case(i, case, nkeys));
    util::write_ndjson(output, &rows);
    let bad = rows.iter().filter(|r| !r["ok"].as_bool().unwrap()).count();
    println!("keys-replay: {} cases x {} keys, {} disagreements", rows.len(), nkeys, bad);
}
