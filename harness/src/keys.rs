//! Concretisation of the spec's key records `[id, alg]` into real key pairs.
//! Deterministic: the same (id, alg, VERIF_SEED) always yields the same key.
use biscuit_auth::{builder::Algorithm, KeyPair, PublicKey};
use rand::SeedableRng;
use serde_json::Value;
use sha2::{Digest, Sha256};

pub fn seed() -> u64 {
    std::env::var("VERIF_SEED")
        .ok()
        .and_then(|s| s.parse().ok())
        .unwrap_or(0)
}

pub fn alg_of(s: &str) -> Algorithm {
    match s {
        "ed" => Algorithm::Ed25519,
        "p256" => Algorithm::Secp256r1,
        o => panic!("unknown algorithm {o}"),
    }
}

pub fn keypair(id: &str, alg: &str) -> KeyPair {
    let mut h = Sha256::new();
    h.update(b"verif-key");
    h.update(id.as_bytes());
    h.update(b"/");
    h.update(alg.as_bytes());
    h.update(seed().to_le_bytes());
    let d: [u8; 32] = h.finalize().into();
    let mut rng = rand::rngs::StdRng::from_seed(d);
    KeyPair::new_with_rng(alg_of(alg), &mut rng)
}

/// key record from the spec: {"id": "K1", "alg": "ed"}
pub fn keypair_of(v: &Value) -> KeyPair {
    keypair(v["id"].as_str().unwrap(), v["alg"].as_str().unwrap())
}

pub fn public_of(v: &Value) -> PublicKey {
    keypair_of(v).public()
}

pub fn alg_code(alg: &str) -> i32 {
    match alg {
        "ed" => 0,
        "p256" => 1,
        o => panic!("unknown algorithm {o}"),
    }
}
