//! Independent byte concretisation of the spec's signed-message records
//! (spec/Chain.tla `Msg`).  Written from the Biscuit specification text
//! (sections "Signature (v0)", "Signature (v1)", "Third-party blocks",
//! "Sealing"); shares no code with biscuit-auth/src/crypto/mod.rs.
use crate::keys;
use serde_json::Value;
use std::collections::HashMap;

/// Memoising concretiser for signatures (signatures nest: a v1 message embeds
/// the previous signature).
pub struct Concretiser {
    pub sig_cache: HashMap<String, Vec<u8>>,
    pub payloads: HashMap<String, Vec<u8>>,
    /// the number on the wire for the spec's root key id hint 1 ("a hint is present"): 1, or 0 - an id that is
    /// present and happens to be zero is not an absent id
    pub hint: u32,
}

fn le32(x: u64) -> [u8; 4] {
    (x as u32).to_le_bytes()
}

impl Concretiser {
    pub fn new(payloads: HashMap<String, Vec<u8>>) -> Self {
        Concretiser {
            sig_cache: HashMap::new(),
            payloads,
            hint: 1,
        }
    }

    pub fn payload(&self, id: &str) -> Vec<u8> {
        self.payloads
            .get(id)
            .unwrap_or_else(|| panic!("unknown payload id {id}"))
            .clone()
    }

    fn key_bytes(&self, k: &Value) -> (i32, Vec<u8>) {
        let alg = k["alg"].as_str().unwrap();
        if let Some(code) = alg.strip_prefix("raw:") {
            // an undeclared key projected from the wire: its own algorithm tag and bytes
            let bytes = hex::decode(k["id"].as_str().unwrap().trim_start_matches("unknown:")).unwrap_or_default();
            return (code.parse().unwrap_or(-1), bytes);
        }
        (keys::alg_code(alg), keys::public_of(k).to_bytes())
    }

    /// bytes of a message record
    pub fn msg(&mut self, m: &Value) -> Vec<u8> {
        let tag = m["tag"].as_str().unwrap();
        let ver = m["ver"].as_u64().unwrap();
        // v0 messages carry their flat body (payload chunks, then the external signature bytes or
        // whatever sits in the external signature field); every other layout names one payload
        let body: Vec<Value> = m.get("body").and_then(|b| b.as_array()).cloned().unwrap_or_default();
        let payload = if tag == "v0" && !body.is_empty() {
            let mut out = Vec::new();
            for ch in &body {
                if let Some(p) = ch.get("part").and_then(|p| p.as_str()) {
                    out.extend(self.payload(p));
                } else {
                    out.extend(self.sig(&ch["sig"]));
                }
            }
            out
        } else if tag == "raw" {
            Vec::new()
        } else {
            self.payload(m["payload"].as_str().unwrap())
        };
        let prev: Vec<Vec<u8>> = m["prev"]
            .as_array()
            .unwrap()
            .iter()
            .map(|s| self.sig(s))
            .collect();
        let ext: Vec<Vec<u8>> = m["ext"]
            .as_array()
            .unwrap()
            .iter()
            .map(|s| self.sig(s))
            .collect();
        let mut out = Vec::new();
        match tag {
            "v0" => {
                // payload ++ [external signature] ++ algorithm (i32 LE) ++ next key
                out.extend(&payload);
                for e in &ext {
                    out.extend(e);
                }
                let (a, k) = self.key_bytes(&m["nk"]);
                out.extend(a.to_le_bytes());
                out.extend(k);
            }
            "v1" => {
                out.extend(b"\0BLOCK\0");
                out.extend(b"\0VERSION\0");
                out.extend(le32(ver));
                out.extend(b"\0PAYLOAD\0");
                out.extend(&payload);
                let (a, k) = self.key_bytes(&m["nk"]);
                out.extend(b"\0ALGORITHM\0");
                out.extend(a.to_le_bytes());
                out.extend(b"\0NEXTKEY\0");
                out.extend(k);
                for p in &prev {
                    out.extend(b"\0PREVSIG\0");
                    out.extend(p);
                }
                for e in &ext {
                    out.extend(b"\0EXTERNALSIG\0");
                    out.extend(e);
                }
            }
            "ext0" => {
                // deprecated external signature: payload ++ algorithm ++ public key of the block's signer
                out.extend(&payload);
                let (a, k) = self.key_bytes(&m["nk"]);
                out.extend(a.to_le_bytes());
                out.extend(k);
            }
            "ext" => {
                out.extend(b"\0EXTERNAL\0");
                out.extend(b"\0VERSION\0");
                out.extend(le32(ver));
                out.extend(b"\0PAYLOAD\0");
                out.extend(&payload);
                for p in &prev {
                    out.extend(b"\0PREVSIG\0");
                    out.extend(p);
                }
            }
            "seal" => {
                // payload ++ algorithm ++ next key ++ signature of the last block
                out.extend(&payload);
                let (a, k) = self.key_bytes(&m["nk"]);
                out.extend(a.to_le_bytes());
                out.extend(k);
                for p in &prev {
                    out.extend(p);
                }
            }
            o => panic!("unknown message tag {o}"),
        }
        out
    }

    /// bytes of a signature record [signer, msg, form]
    pub fn sig(&mut self, s: &Value) -> Vec<u8> {
        let key = s.to_string();
        if let Some(b) = self.sig_cache.get(&key) {
            return b.clone();
        }
        if s["msg"]["tag"] == "raw" {
            // not a signature: the bytes of a payload chunk sitting in a signature field
            return self.payload(s["msg"]["payload"].as_str().unwrap());
        }
        let kp = keys::keypair_of(&s["signer"]);
        let m = self.msg(&s["msg"]);
        let base = kp.sign(&m).expect("sign").to_bytes().to_vec();
        let form = s["form"].as_u64().unwrap();
        let out = if form == 0 {
            base
        } else {
            match form {
                1 => malleate(s["signer"]["alg"].as_str().unwrap(), &base),
                2 => {
                    // one trailing byte
                    let mut b = base.clone();
                    b.push(0);
                    b
                }
                3 => base[..base.len() - 1].to_vec(),
                4 => reencode(s["signer"]["alg"].as_str().unwrap(), &base),
                f => panic!("unknown signature form {f}"),
            }
        };
        self.sig_cache.insert(key, out.clone());
        out
    }
}

/// The second encoding of a signature: ECDSA (r, s) -> (r, n - s) (still a valid
/// signature of the same message); ed25519 S -> S + L (non-canonical, must be
/// refused by strict verification).
pub fn malleate(alg: &str, sig: &[u8]) -> Vec<u8> {
    match alg {
        "p256" => {
            use p256::ecdsa::Signature;
            let s = Signature::from_der(sig).expect("der");
            let r = s.r();
            let neg = -*s.s();
            let m = Signature::from_scalars(*r, neg).expect("scalars");
            m.to_der().as_bytes().to_vec()
        }
        "ed" => {
            // L = 2^252 + 27742317777372353535851937790883648493, little endian
            const L: [u8; 32] = [
                0xed, 0xd3, 0xf5, 0x5c, 0x1a, 0x63, 0x12, 0x58, 0xd6, 0x9c, 0xf7, 0xa2, 0xde, 0xf9,
                0xde, 0x14, 0, 0, 0, 0, 0, 0, 0, 0, 0, 0, 0, 0, 0, 0, 0, 0x10,
            ];
            let mut out = sig.to_vec();
            let mut carry = 0u16;
            for i in 0..32 {
                let v = out[32 + i] as u16 + L[i] as u16 + carry;
                out[32 + i] = (v & 0xff) as u8;
                carry = v >> 8;
            }
            out
        }
        o => panic!("unknown algorithm {o}"),
    }
}

/// the same signature value in another standard container
pub fn reencode(alg: &str, sig: &[u8]) -> Vec<u8> {
    match alg {
        "p256" => {
            let s = p256::ecdsa::Signature::from_der(sig).expect("der");
            s.to_bytes().to_vec() // fixed-size r || s
        }
        _ => {
            // DER OCTET STRING wrapping of the 64 bytes
            let mut out = vec![0x04, sig.len() as u8];
            out.extend_from_slice(sig);
            out
        }
    }
}
