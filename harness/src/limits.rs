//! C10: replay of spec/Limits.tla scenarios (program shape x limits x call sequence).
use crate::util;
use biscuit_auth::builder::AuthorizerBuilder;
use biscuit_auth::datalog::RunLimits;
use biscuit_auth::error;
use serde_json::{json, Value};
use std::time::Duration;

/// a Datalog program whose naive evaluation has exactly the given level sizes
pub fn program_for(levels: &[u64], slow: bool) -> String {
    let n0 = levels[0];
    let p = levels.len() - 1;
    let mut s = String::new();
    if p == 0 {
        for i in 0..n0 {
            s += &format!("pad({i});\n");
        }
    } else if p == 1 && levels[1] - levels[0] > 1 {
        // wide: k items, one pass adds k*k pairs
        let k = (((levels[1] - levels[0]) as f64).sqrt()).round() as u64;
        assert_eq!(k * k, levels[1] - levels[0], "wide level must add a square");
        assert!(n0 >= k);
        for i in 0..k {
            s += &format!("item({i});\n");
        }
        for i in 0..(n0 - k) {
            s += &format!("pad({i});\n");
        }
        s += "pair($x, $y) <- item($x), item($y);\n";
    } else {
        // chain: p passes adding one fact each
        for w in levels.windows(2) {
            assert_eq!(w[1], w[0] + 1, "chain levels grow by one");
        }
        let base = p as u64 + 1;
        assert!(n0 >= base, "n0 too small for the chain");
        s += "reach(0);\n";
        for i in 0..p {
            s += &format!("succ({}, {});\n", i, i + 1);
        }
        for i in 0..(n0 - base) {
            s += &format!("pad({i});\n");
        }
        if slow {
            // every pass calls an extern function that outlasts max_time
            s += "reach($y) <- reach($x), succ($x, $y), $x.extern::slow();\n";
        } else {
            s += "reach($y) <- reach($x), succ($x, $y);\n";
        }
    }
    s += "allow if true;\n";
    s
}

fn classify<T>(r: Result<T, error::Token>) -> String {
    match r {
        Ok(_) => "ok".to_string(),
        Err(error::Token::RunLimit(k)) => format!("limit:{k:?}"),
        Err(e) => format!("error:{e:?}"),
    }
}

fn replay_case(idx: usize, case: &Value) -> Value {
    let sc = &case["sc"];
    let levels: Vec<u64> = sc["levels"].as_array().unwrap().iter().map(|x| x.as_u64().unwrap()).collect();
    let mf = sc["mf"].as_u64().unwrap();
    let mi = sc["mi"].as_u64().unwrap();
    let mt = sc["mt"].as_u64().unwrap();
    let cost = sc["cost"].as_u64().unwrap();
    let qcost = sc["qcost"].as_u64().unwrap_or(0);
    let slow = cost > 0;
    let calls: Vec<String> = sc["calls"].as_array().unwrap().iter().map(|x| x.as_str().unwrap().to_string()).collect();
    let admissible: Vec<Vec<String>> = case["admissible"]
        .as_array()
        .unwrap()
        .iter()
        .map(|s| s.as_array().unwrap().iter().map(|x| x.as_str().unwrap().to_string()).collect())
        .collect();
    let mut problems: Vec<String> = Vec::new();
    let chain = levels.len() > 1 && levels.windows(2).all(|w| w[1] == w[0] + 1);
    if slow && !chain {
        // only chain programs have a slow variant
        return json!({"idx": idx, "ok": true, "problems": [], "observed": [], "events": [], "skipped": true});
    }
    if slow && calls.iter().any(|c| c == "snapshot") {
        // a snapshot does not carry extern functions: the slow variant cannot be restored
        return json!({"idx": idx, "ok": true, "problems": [], "observed": [], "events": [], "skipped": true});
    }
    let mut code = program_for(&levels, slow);
    if qcost > 0 {
        // a slow authorizer over a rule-free program: one of the facts is one(1), the check of authorize and
        // the queries call an extern function that sleeps qcost ticks (1 tick = 20 ms)
        if levels.len() != 1 || levels[0] == 0 {
            return json!({"idx": idx, "ok": true, "problems": [], "observed": [], "events": [], "skipped": true});
        }
        code = code.replacen("pad(0);", "one(1);", 1);
        code += "check if one($x), $x.extern::slow();\n";
    }
    let max_time = if qcost > 0 { Duration::from_millis(20 * mt) } else if mt < 100 { Duration::from_millis(15) } else { Duration::from_secs(30) };
    let limits = RunLimits { max_facts: mf, max_iterations: mi, max_time };
    let slow_fn = biscuit_auth::datalog::ExternFunc::new(std::sync::Arc::new(|_l, _r| {
        std::thread::sleep(Duration::from_millis(40));
        Ok(biscuit_auth::builder::Term::Bool(true))
    }));
    let built = AuthorizerBuilder::new()
        .code(&code)
        .map(|b| b.limits(limits).register_extern_func("slow".to_string(), slow_fn))
        .and_then(|b| b.build_unauthenticated());
    let mut a = match built {
        Ok(a) => a,
        Err(e) => {
            return json!({"idx": idx, "ok": false, "problems": [format!("building the authorizer failed: {e:?}")], "observed": [], "events": []});
        }
    };
    let mut observed: Vec<String> = Vec::new();
    let mut detail: Vec<Value> = Vec::new();
    let mut events: Vec<Value> = vec![json!({"ev": "scenario", "levels": levels, "mf": mf, "mi": mi, "mt": mt, "cost": cost, "qcost": qcost})];
    for c in &calls {
        biscuit_auth::verif::record(true);
        let r = util::catch(|| match c.as_str() {
            "run" => classify(a.run()),
            "authorize" => classify(a.authorize()),
            "query" if qcost > 0 => classify(a.query::<_, (i64,), _>("q($x) <- one($x), $x.extern::slow()")),
            "query_all" if qcost > 0 => classify(a.query_all::<_, (i64,), _>("q($x) <- one($x), $x.extern::slow()")),
            "query" => classify(a.query::<_, (i64,), _>("q($x) <- reach($x)")),
            "query_all" => classify(a.query_all::<_, (i64,), _>("q($x) <- pad($x)")),
            "snapshot" => match a.to_raw_snapshot().map_err(|e| format!("{e:?}")).and_then(|s| biscuit_auth::Authorizer::from_raw_snapshot(&s).map_err(|e| format!("{e:?}"))) {
                Ok(b) => {
                    a = b;
                    "ok".to_string()
                }
                Err(e) => format!("error:{e}"),
            },
            o => panic!("unknown call {o}"),
        });
        let evs = biscuit_auth::verif::take();
        biscuit_auth::verif::record(false);
        events.push(json!({"ev": "call", "name": c}));
        for e in evs {
            let v: Value = serde_json::from_str(&e).unwrap();
            if v["ev"] == "iter" {
                events.push(json!({"ev": "iter", "before": v["before"], "after": v["after"]}));
            }
        }
        let out = match r {
            Ok(s) => s,
            Err(p) => format!("panic:{p}"),
        };
        let class = out.split(':').next().unwrap().to_string();
        let iters = a.iterations();
        let facts = a.fact_count() as u64;
        events.push(json!({"ev": "return", "name": c, "outcome": class, "iterations": iters, "facts": facts}));
        detail.push(json!({"call": c, "outcome": out, "iterations": iters, "facts": facts}));
        if class == "ok" && c != "snapshot" {
            // the property, directly: never more iterations or facts than the budget on success
            if iters > mi {
                problems.push(format!("call {c}: Ok with iterations() = {iters} > max_iterations = {mi}"));
            }
            if facts > mf {
                problems.push(format!("call {c}: Ok with fact_count() = {facts} > max_facts = {mf}"));
            }
        }
        if class == "panic" {
            problems.push(format!("call {c}: {out}"));
        }
        if class == "error" {
            problems.push(format!("call {c}: unexpected {out}"));
        }
        observed.push(class);
    }
    if !admissible.contains(&observed) {
        problems.push(format!("observed outcomes {:?} are not admitted by the spec (admissible: {:?})", observed, admissible));
    }
    json!({"idx": idx, "ok": problems.is_empty(), "problems": problems, "observed": observed, "detail": detail, "events": events})
}

pub fn cmd_replay(input: &str, output: &str) {
    util::quiet_panics();
    let cases = util::read_ndjson(input);
    let rows = util::par_map(cases, || (), |_, i, case| replay_case(i, case));
    util::write_ndjson(output, &rows);
    let bad = rows.iter().filter(|r| !r["ok"].as_bool().unwrap()).count();
    println!("limits-replay: {} scenarios, {} disagreements", rows.len(), bad);
}

/// wall-clock promptness: one expensive pass with a small time budget must return soon
pub fn cmd_time(output: &str) {
    let mut rows = Vec::new();
    for (k, max_ms) in [(100u64, 5u64), (60, 2)] {
        let mut code = String::new();
        for i in 0..k {
            code += &format!("item({i});\n");
        }
        // many cheap iterations + a cubic join
        code += "t($x, $y, $z) <- item($x), item($y), item($z);\nallow if true;\n";
        let mut best = u128::MAX;
        let mut outcome = String::new();
        for _ in 0..3 {
            let limits = RunLimits { max_facts: 100_000_000, max_iterations: 1000, max_time: Duration::from_millis(max_ms) };
            let mut a = AuthorizerBuilder::new().code(&code).unwrap().limits(limits).build_unauthenticated().unwrap();
            let t0 = std::time::Instant::now();
            let r = a.authorize();
            let dt = t0.elapsed().as_millis();
            outcome = classify(r);
            best = best.min(dt);
        }
        rows.push(json!({"items": k, "max_time_ms": max_ms, "best_of_3_ms": best as u64, "outcome": outcome}));
    }
    std::fs::write(output, Value::Array(rows.clone()).to_string()).unwrap();
    println!("limits-time: {}", Value::Array(rows));
}
