//! C18, runtime path: the same (source, parameters) cases as the generated macro crate, through
//! the run-time parser and parameter binding; prints the canonical bytes of the resulting builder.
use crate::keys;
use crate::params;
use crate::util;
use biscuit_auth::builder::{AuthorizerBuilder, BlockBuilder, Term};
use biscuit_auth::datalog::SymbolTable;
use biscuit_auth::{Biscuit, PublicKey};
use serde_json::{json, Value};
use std::collections::HashMap;

pub fn block_bytes(b: BlockBuilder) -> Result<Vec<u8>, String> {
    let root = keys::keypair("R", "ed");
    let nk = keys::keypair("K1", "ed");
    Biscuit::builder()
        .merge(b)
        .build_with_key_pair(&root, SymbolTable::new(), &nk)
        .and_then(|t| t.to_vec())
        .map_err(|e| format!("{e:?}"))
}

pub fn authorizer_bytes(a: AuthorizerBuilder) -> Result<Vec<u8>, String> {
    a.to_raw_snapshot().map_err(|e| format!("{e:?}"))
}

fn replay_case(idx: usize, case: &Value) -> Value {
    let src = case["src"].as_str().unwrap();
    let holder = case["holder"].as_str().unwrap();
    let r = util::catch(|| -> Result<Vec<u8>, String> {
        let mut params: HashMap<String, Term> = HashMap::new();
        let mut scope_params: HashMap<String, PublicKey> = HashMap::new();
        if let Some(v) = case["value"].as_str() {
            if v.starts_with("key_") {
                scope_params.insert("p".to_string(), params::key_of(v));
            } else {
                params.insert("p".to_string(), params::value(v).0);
            }
        }
        if let Some(v) = case["value2"].as_str() {
            let n2 = case["name2"].as_str().unwrap_or("q").to_string();
            if v.starts_with("key_") {
                scope_params.insert(n2, params::key_of(v));
            } else {
                params.insert(n2, params::value(v).0);
            }
        }
        let e = |e: biscuit_auth::error::Token| format!("{e:?}");
        if holder == "authorizer" {
            authorizer_bytes(AuthorizerBuilder::new().code_with_params(src, params, scope_params).map_err(e)?)
        } else {
            block_bytes(BlockBuilder::new().code_with_params(src, params, scope_params).map_err(e)?)
        }
    });
    let (hexs, err) = match r {
        Ok(Ok(b)) => (hex::encode(b), Value::Null),
        Ok(Err(e)) => (String::new(), json!(e)),
        Err(p) => (String::new(), json!(format!("PANIC {p}"))),
    };
    json!({"id": case["id"], "idx": idx, "hex": hexs, "error": err})
}

pub fn cmd_runtime(input: &str, output: &str) {
    util::quiet_panics();
    let cases = util::read_ndjson(input);
    let rows = util::par_map(cases, || (), |_, i, case| replay_case(i, case));
    util::write_ndjson(output, &rows);
    println!("macro-runtime: {} cases", rows.len());
}
