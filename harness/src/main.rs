mod auth;
mod capi;
mod chain;
mod dlog;
mod expr;
mod expr_e2e;
mod ingest;
mod chainrec;
mod keycodec;
mod keys;
mod layout;
mod macrort;
mod params;
mod limits;
mod snap;
mod symrec;
mod syntax;
mod tp;
mod util;
mod ver;

fn main() {
    let args: Vec<String> = std::env::args().collect();
    if args.len() < 2 {
        eprintln!("usage: vh <command> [args]");
        std::process::exit(2);
    }
    match args[1].as_str() {
        "chain-forged" => chain::cmd_forged(&args[2], &args[3]),
        "chain-record" => chainrec::cmd_record(args[2].parse().unwrap(), &args[3]),
        "chain-unique" => chain::cmd_unique(args[2].parse().unwrap(), &args[3]),
        "auth-debug" => auth::cmd_debug(&args[2]),
        "auth-outcomes" => auth::cmd_outcomes(&args[2], &args[3], args[4].parse().unwrap()),
        "limits-replay" => limits::cmd_replay(&args[2], &args[3]),
        "limits-time" => limits::cmd_time(&args[2]),
        "snap-replay" => snap::cmd_replay(&args[2], &args[3]),
        "expr-replay" => expr::cmd_replay(&args[2], &args[3]),
        "expr-e2e" => expr_e2e::cmd_replay(&args[2], &args[3]),
        // the textual form of the two public keys the specs call KED / KP256
        "key-text" => println!("{}", serde_json::json!({"KED": keys::keypair("PK", "ed").public().print(), "KP256": keys::keypair("PK", "p256").public().print()})),
        "sym-record" => symrec::cmd_record(args[2].parse().unwrap(), &args[3]),
        "tp-replay" => tp::cmd_replay(&args[2], &args[3]),
        "ver-replay" => ver::cmd_replay(&args[2], &args[3]),
        "params-replay" => params::cmd_replay(&args[2], &args[3]),
        "syntax-replay" => syntax::cmd_replay(&args[2], &args[3]),
        "keys-replay" => keycodec::cmd_replay(&args[2], &args[3], args[4].parse().unwrap()),
        "capi-child" => capi::cmd_child(&args[2]),
        "capi-replay" => capi::cmd_replay(&args[2], &args[3]),
        "ingest-replay" => ingest::cmd_replay(&args[2], &args[3]),
        "ingest-fuzz" => ingest::cmd_fuzz(args[2].parse().unwrap(), &args[3]),
        "ingest-child" => ingest::cmd_child(&args[2], args[3].parse().unwrap()),
        "macro-runtime" => macrort::cmd_runtime(&args[2], &args[3]),
        "auth-record" => auth::cmd_record(&args[2], &args[3]),
        "auth-replay" => auth::cmd_replay(&args[2], &args[3]),
        "dlog-replay" => dlog::cmd_replay(&args[2], &args[3]),
        "chain-honest" => chain::cmd_honest(&args[2], &args[3]),
        o => {
            eprintln!("unknown command {o}");
            std::process::exit(2);
        }
    }
}
