//! C20: replay of spec/Params.tla (position x value x binding x setter).
use crate::keys;
use crate::util;
use biscuit_auth::builder::{self, AuthorizerBuilder, BlockBuilder, Check, Fact, MapKey, Policy, Rule, Term};
use biscuit_auth::datalog::SymbolTable;
use biscuit_auth::{Biscuit, PublicKey};
use serde_json::{json, Value};
use std::collections::{BTreeMap, BTreeSet};
use std::convert::TryFrom;

pub fn key_of(v: &str) -> PublicKey {
    keys::keypair("PK", if v == "key_secp256r1" { "p256" } else { "ed" }).public()
}

/// (value as a builder term, the same value written as a Datalog literal)
pub fn value(v: &str) -> (Term, String) {
    match v {
        "int" => (Term::Integer(5), "5".to_string()),
        "string" => (Term::Str("abc".to_string()), "\"abc\"".to_string()),
        "string_with_datalog" => (Term::Str("\"); admin(\"x".to_string()), "\"\\\"); admin(\\\"x\"".to_string()),
        "string_with_quote_newline" => (Term::Str("a\"b\\c\nd".to_string()), "\"a\\\"b\\\\c\\nd\"".to_string()),
        "bool" => (Term::Bool(true), "true".to_string()),
        "date" => (Term::Date(1577836800), "2020-01-01T00:00:00Z".to_string()),
        "bytes" => (Term::Bytes(vec![1, 2]), "hex:0102".to_string()),
        "set" => {
            let mut s = BTreeSet::new();
            s.insert(Term::Integer(1));
            s.insert(Term::Integer(2));
            (Term::Set(s), "{1, 2}".to_string())
        }
        "array" => (Term::Array(vec![Term::Integer(1), Term::Str("a".to_string())]), "[1, \"a\"]".to_string()),
        "map" => {
            let mut m = BTreeMap::new();
            m.insert(MapKey::Str("a".to_string()), Term::Integer(1));
            (Term::Map(m), "{\"a\": 1}".to_string())
        }
        "null" => (Term::Null, "null".to_string()),
        o => panic!("value {o}"),
    }
}

enum Item {
    F(Fact),
    R(Rule),
    C(Check),
    P(Policy),
}

fn parse(pos: &str, src: &str) -> Result<Item, String> {
    let e = |e: biscuit_auth::error::Token| format!("{e:?}");
    if pos.starts_with("fact") {
        Fact::try_from(src).map(Item::F).map_err(e)
    } else if pos.starts_with("rule") {
        Rule::try_from(src).map(Item::R).map_err(e)
    } else if pos.starts_with("check") {
        Check::try_from(src).map(Item::C).map_err(e)
    } else {
        Policy::try_from(src).map(Item::P).map_err(e)
    }
}

/// adds the item to a builder and returns a canonical byte form of the result
fn add(item: Item) -> Result<Vec<u8>, String> {
    let e = |e: biscuit_auth::error::Token| format!("{e:?}");
    let root = keys::keypair("R", "ed");
    let nk = keys::keypair("K1", "ed");
    match item {
        Item::P(p) => {
            let ab = AuthorizerBuilder::new().policy(p).map_err(e)?;
            // conversion happens when the authorizer is built / snapshotted
            let a = ab.clone().build_unauthenticated().map_err(e)?;
            let _ = a.to_raw_snapshot().map_err(|e| format!("{e:?}"))?;
            ab.to_raw_snapshot().map_err(|e| format!("{e:?}"))
        }
        other => {
            let bb = match other {
                Item::F(f) => BlockBuilder::new().fact(f).map_err(e)?,
                Item::R(r) => BlockBuilder::new().rule(r).map_err(e)?,
                Item::C(c) => BlockBuilder::new().check(c).map_err(e)?,
                Item::P(_) => unreachable!(),
            };
            let t = Biscuit::builder().merge(bb).build_with_key_pair(&root, SymbolTable::new(), &nk).map_err(e)?;
            // every accessor on the result must work
            let _ = t.print_block_source(0).map_err(e)?;
            let _ = t.authorizer().map_err(e)?;
            t.to_vec().map_err(e)
        }
    }
}

fn replay_case(idx: usize, case: &Value) -> Value {
    let c = &case["c"];
    let pos = c["pos"].as_str().unwrap();
    let v = c["v"].as_str().unwrap();
    let bound = c["bound"].as_bool().unwrap();
    let strict = c["strict"].as_bool().unwrap();
    let known = c["known"].as_bool().unwrap();
    let want = case["outcome"].as_str().unwrap();
    // the item's source comes from the spec (Params.tla, Template)
    let template = case["src"].as_str().unwrap();
    let v2 = c["v2"].as_str().unwrap_or("-");
    let bound2 = c["bound2"].as_bool().unwrap_or(true);
    let pair = v2 != "-";
    // name of the second hole ("p" when the item uses one name for a term and a scope parameter)
    let n2 = case["name2"].as_str().unwrap_or("q");
    let is_scope = pos.contains("scope") && !pair;
    let r = util::catch(|| -> Result<String, String> {
        let mut item = parse(pos, template).map_err(|e| format!("template does not parse: {e}"))?;
        if pair && bound2 {
            // the second hole {q}: a term or, for the *_and_scope positions, a public key
            let res = if v2.starts_with("key_") {
                let k = key_of(v2);
                match (&mut item, strict) {
                    (Item::R(x), true) => x.set_scope(n2, k),
                    (Item::R(x), false) => x.set_scope_lenient(n2, k),
                    (Item::C(x), true) => x.set_scope(n2, k),
                    (Item::C(x), false) => x.set_scope_lenient(n2, k),
                    (Item::P(x), true) => x.set_scope(n2, k),
                    (Item::P(x), false) => x.set_scope_lenient(n2, k),
                    _ => unreachable!(),
                }
            } else {
                let (t, _) = value(v2);
                match (&mut item, strict) {
                    (Item::F(x), true) => x.set(n2, t),
                    (Item::F(x), false) => x.set_lenient(n2, t),
                    (Item::R(x), true) => x.set(n2, t),
                    (Item::R(x), false) => x.set_lenient(n2, t),
                    (Item::C(x), true) => x.set(n2, t),
                    (Item::C(x), false) => x.set_lenient(n2, t),
                    (Item::P(x), true) => x.set(n2, t),
                    (Item::P(x), false) => x.set_lenient(n2, t),
                }
            };
            if let Err(e) = res {
                return Ok(format!("set-error ({e:?})"));
            }
        }
        if bound {
            let name = if known { "p" } else { "zz" };
            let res = if is_scope {
                let k = key_of(v);
                match (&mut item, strict) {
                    (Item::R(x), true) => x.set_scope(name, k),
                    (Item::R(x), false) => x.set_scope_lenient(name, k),
                    (Item::C(x), true) => x.set_scope(name, k),
                    (Item::C(x), false) => x.set_scope_lenient(name, k),
                    (Item::P(x), true) => x.set_scope(name, k),
                    (Item::P(x), false) => x.set_scope_lenient(name, k),
                    _ => unreachable!(),
                }
            } else {
                let (t, _) = value(v);
                match (&mut item, strict) {
                    (Item::F(x), true) => x.set(name, t),
                    (Item::F(x), false) => x.set_lenient(name, t),
                    (Item::R(x), true) => x.set(name, t),
                    (Item::R(x), false) => x.set_lenient(name, t),
                    (Item::C(x), true) => x.set(name, t),
                    (Item::C(x), false) => x.set_lenient(name, t),
                    (Item::P(x), true) => x.set(name, t),
                    (Item::P(x), false) => x.set_lenient(name, t),
                }
            };
            if let Err(e) = res {
                return Ok(format!("set-error ({e:?})"));
            }
        }
        match add(item) {
            Err(e) if e.contains("Parameters") && e.contains("missing_parameters") => Ok("refused".to_string()),
            Err(e) => Ok(format!("value-error ({e})")),
            Ok(bytes) => {
                // compare with the item written with the literal
                let lit = if is_scope { key_of(v).print() } else { value(v).1 };
                let mut src = template.to_string();
                if pair {
                    let lit2 = if v2.starts_with("key_") { key_of(v2).print() } else { value(v2).1 };
                    src = src.replace("{q}", &lit2).replace("trusting {p}", &format!("trusting {lit2}"));
                }
                let src = src.replace("{p}", &lit);
                let direct = parse(pos, &src).map_err(|e| format!("literal form does not parse: {src}: {e}"))?;
                let want_bytes = add(direct).map_err(|e| format!("literal form not accepted: {src}: {e}"))?;
                if bytes == want_bytes {
                    Ok("same-as-literal".to_string())
                } else {
                    Ok("DIFFERS-from-literal".to_string())
                }
            }
        }
    });
    let mut problems = Vec::new();
    let got = match r {
        Ok(Ok(s)) => s,
        Ok(Err(e)) => {
            problems.push(format!("harness: {e}"));
            "harness-error".to_string()
        }
        Err(p) => format!("PANIC {p}"),
    };
    let class = got.split(' ').next().unwrap().to_string();
    // a value that does not fit may be refused by the setter or at add time: both are errors, not panics
    let ok = class == want || (want == "value-error" && (class == "set-error" || class == "refused"));
    if !ok && problems.is_empty() {
        problems.push(format!("{pos} / {v} / {v2} (bound={bound} bound2={bound2} strict={strict} known={known}): got {got}, the spec says {want}"));
    }
    json!({"idx": idx, "ok": problems.is_empty(), "problems": problems, "got": class})
}

pub fn cmd_replay(input: &str, output: &str) {
    util::quiet_panics();
    let cases = util::read_ndjson(input);
    let rows = util::par_map(cases, || (), |_, i, case| replay_case(i, case));
    util::write_ndjson(output, &rows);
    let bad = rows.iter().filter(|r| !r["ok"].as_bool().unwrap()).count();
    println!("params-replay: {} cases, {} disagreements", rows.len(), bad);
}
#[allow(dead_code)]
fn _unused() -> builder::Scope {
    builder::Scope::Authority
}
