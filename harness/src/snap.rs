//! C13: snapshot / restore of authorizers, authorizer builders and saved policies,
//! on the programs exported from spec/AuthMC.tla.  The restored object must have
//! the same abstract state (hook verif_state) AND behave as the SPEC says the
//! program behaves (result record computed by TLC).
use crate::auth::{self, auth_result, big_limits, build_authorizer, build_token};
use crate::util;
use biscuit_auth::builder::AuthorizerBuilder;
use biscuit_auth::datalog::RunLimits;
use biscuit_auth::Authorizer;
use prost::Message;
use serde_json::{json, Value};
use std::collections::BTreeSet;
use std::time::Duration;

/// order-insensitive abstract state
fn canon_state(a: &Authorizer) -> Value {
    let st = a.verif_state();
    let set = |v: &Value| -> Vec<String> {
        let mut s: Vec<String> = v.as_array().unwrap().iter().map(|x| x.to_string()).collect();
        s.sort();
        s
    };
    json!({
        "facts": set(&st["facts"]),
        "rules": set(&st["rules"]),
        "keymap": set(&st["keymap"]),
        "token_origins": st["token_origins"],
        "block_checks": st["block_checks"],
        "authorizer_checks": st["authorizer_checks"],
        "policies": st["policies"],
        "iterations": st["iterations"],
        "limits": st["limits"],
        "ran": st["ran"],
        "has_token": st["has_token"],
    })
}

fn diff_state(a: &Value, b: &Value) -> Vec<String> {
    let mut out = Vec::new();
    for k in ["facts", "rules", "keymap", "token_origins", "block_checks", "authorizer_checks", "policies", "iterations", "limits", "ran", "has_token"] {
        if a[k] != b[k] {
            out.push(format!("{k}: {} -> {}", a[k].to_string().chars().take(160).collect::<String>(), b[k].to_string().chars().take(160).collect::<String>()));
        }
    }
    out
}

fn behaviour(a: &mut Authorizer) -> Value {
    let r = a.authorize();
    let q1: Result<Vec<(String,)>, _> = a.query("r($x) <- f($x)");
    let q2: Result<Vec<(String,)>, _> = a.query_all("r($x) <- f($x)");
    let q3: Result<Vec<(String,)>, _> = a.query_all("r($x) <- d($x)");
    let s = |q: Result<Vec<(String,)>, biscuit_auth::error::Token>| -> Value {
        match q {
            Ok(v) => {
                let b: BTreeSet<String> = v.into_iter().map(|t| t.0).collect();
                json!(b)
            }
            Err(e) => json!(format!("{e:?}")),
        }
    };
    json!({"auth": auth_result(&r), "q": s(q1), "q_all": s(q2), "q_d_all": s(q3)})
}

fn spec_behaviour(res: &Value) -> Value {
    let q = |v: &Value| -> Value {
        let b: BTreeSet<String> = v.as_array().unwrap().iter().map(|a| a["a"][0].as_str().unwrap().to_string()).collect();
        json!(b)
    };
    let mut failed: Vec<(u64, u64)> = res["failed"].as_array().unwrap().iter().map(|c| (c["owner"].as_u64().unwrap(), c["idx"].as_u64().unwrap())).collect();
    failed.sort_by_key(|(o, i)| (if *o == auth::AZ { 0 } else { 1 + *o }, *i));
    let failed: Vec<Value> = failed.into_iter().map(|(o, i)| json!({"owner": o, "idx": i})).collect();
    let idx = if res["policy"] == "none" { json!(0) } else { res["index"].clone() };
    json!({"auth": {"policy": res["policy"], "index": idx, "ok": res["ok"], "failed": failed},
           "q": q(&res["q_default"]), "q_all": q(&res["q_all"]), "q_d_all": q(&res["q_d_all"])})
}

fn roundtrip(a: &Authorizer, form: &str) -> Result<Authorizer, String> {
    match form {
        "raw" => {
            let b = a.to_raw_snapshot().map_err(|e| format!("snapshot failed: {e:?}"))?;
            Authorizer::from_raw_snapshot(&b).map_err(|e| format!("restore failed: {e:?}"))
        }
        "base64" => {
            let b = a.to_base64_snapshot().map_err(|e| format!("snapshot failed: {e:?}"))?;
            Authorizer::from_base64_snapshot(&b).map_err(|e| format!("restore failed: {e:?}"))
        }
        o => panic!("form {o}"),
    }
}

fn replay_case(idx: usize, case: &Value) -> Value {
    let prog = &case["prog"];
    let blocks: Vec<Value> = prog["blocks"].as_array().unwrap().clone();
    let mut problems: Vec<String> = Vec::new();
    let r = util::catch(|| {
        let mut problems: Vec<String> = Vec::new();
        let tok = build_token(&blocks).map_err(|e| format!("building the token failed: {e}"))?;
        let want = spec_behaviour(&case["res"]);
        for phase in ["fresh", "ran", "failed"] {
            for form in ["raw", "base64"] {
                let limits = if phase == "failed" {
                    RunLimits { max_facts: 2, max_iterations: 1, max_time: Duration::from_secs(30) }
                } else {
                    big_limits()
                };
                let mut a = build_authorizer(&prog["authz"], &tok, limits).map_err(|e| format!("building the authorizer failed: {e}"))?;
                let mut first = Value::Null;
                if phase != "fresh" {
                    first = json!(format!("{:?}", a.authorize().map_err(|e| format!("{e:?}"))));
                }
                let before = canon_state(&a);
                let restored = roundtrip(&a, form);
                let mut b = match restored {
                    Ok(b) => b,
                    Err(e) => {
                        problems.push(format!("{phase}/{form}: {e}"));
                        continue;
                    }
                };
                let after = canon_state(&b);
                for d in diff_state(&before, &after) {
                    problems.push(format!("{phase}/{form}: state changed: {d}"));
                }
                // behaviour: as the original and (error-free phases) as the spec says
                let bo = behaviour(&mut a);
                let br = behaviour(&mut b);
                if bo != br {
                    problems.push(format!("{phase}/{form}: restored authorizer behaves differently: {bo} vs {br}"));
                }
                if phase != "failed" && br != want {
                    problems.push(format!("{phase}/{form}: restored authorizer deviates from the spec: {br} vs {want}"));
                }
                let _ = first;
            }
        }
        // authorizer builder snapshot (no token) and saved policies
        {
            let mut ab = AuthorizerBuilder::new().code(auth::authz_code(&prog["authz"])).map_err(|e| format!("{e:?}"))?;
            ab = ab.limits(big_limits());
            let raw = ab.to_raw_snapshot().map_err(|e| format!("builder snapshot failed: {e:?}"))?;
            match AuthorizerBuilder::from_raw_snapshot(&raw) {
                Ok(ab2) => {
                    if ab.dump_code() != ab2.dump_code() {
                        problems.push(format!("builder: restored builder differs: {:?} vs {:?}", ab.dump_code(), ab2.dump_code()));
                    }
                    // note: block-level scopes are not part of dump_code; compare behaviour too
                    let mut x = ab2.build(&tok).map_err(|e| format!("{e:?}"))?;
                    let mut y = AuthorizerBuilder::new().code(auth::authz_code(&prog["authz"])).unwrap().limits(big_limits()).build(&tok).map_err(|e| format!("{e:?}"))?;
                    if prog["authz"]["scope"].as_array().unwrap().is_empty() && behaviour(&mut x) != behaviour(&mut y) {
                        problems.push("builder: restored builder builds an authorizer that behaves differently".to_string());
                    }
                }
                Err(e) => problems.push(format!("builder: restore failed: {e:?}")),
            }
            let a = build_authorizer(&prog["authz"], &tok, big_limits()).map_err(|e| format!("{e}"))?;
            let saved = a.save().map_err(|e| format!("save failed: {e:?}"))?;
            let bytes = saved.serialize().map_err(|e| format!("policies serialize failed: {e:?}"))?;
            match biscuit_auth::format::schema::AuthorizerPolicies::decode(&bytes[..]) {
                Ok(_) => {}
                Err(e) => problems.push(format!("policies: serialized form does not decode: {e:?}")),
            }
            match biscuit_auth::Authorizer::from(&bytes) {
                Ok(a2) => {
                    // what was saved must be what is loaded (facts, rules, checks, policies of the authorizer)
                    let s2 = a2.save().map_err(|e| format!("save failed: {e:?}"))?;
                    // (the AuthorizerPolicies type is not nameable from outside the crate)
                    macro_rules! pr {
                        ($v:expr) => {
                            json!({
                                "facts": $v.facts.iter().map(|x| x.to_string()).collect::<Vec<_>>(),
                                "rules": $v.rules.iter().map(|x| x.to_string()).collect::<Vec<_>>(),
                                "checks": $v.checks.iter().map(|x| x.to_string()).collect::<Vec<_>>(),
                                "policies": $v.policies.iter().map(|x| x.to_string()).collect::<Vec<_>>(),
                            })
                        };
                    }
                    if pr!(saved) != pr!(s2) {
                        problems.push(format!("policies: content differs after save/load: {} vs {}", pr!(saved), pr!(s2)));
                    }
                }
                Err(e) => problems.push(format!("policies: load failed: {e:?}")),
            }
        }
        Ok::<Vec<String>, String>(problems)
    });
    match r {
        Ok(Ok(p)) => problems.extend(p),
        Ok(Err(e)) => problems.push(e),
        Err(p) => problems.push(format!("PANIC {p}")),
    }
    json!({"idx": idx, "ok": problems.is_empty(), "problems": problems})
}

pub fn cmd_replay(input: &str, output: &str) {
    util::quiet_panics();
    let cases = util::read_ndjson(input);
    let rows = util::par_map(cases, || (), |_, i, case| replay_case(i, case));
    util::write_ndjson(output, &rows);
    let bad = rows.iter().filter(|r| !r["ok"].as_bool().unwrap()).count();
    println!("snap-replay: {} cases, {} disagreements", rows.len(), bad);
}
