//! C12 / C07: recorder for spec/SymbolsTrace.tla.  Runs operation sequences over
//! block contents chosen to share, shadow and collide on symbols, default symbols
//! and public keys, through the verified and the unverified API, and logs the
//! interning tables (hook verif_tables) of the in-memory and of the reloaded token.
use crate::keys;
use crate::util;
use biscuit_auth::builder::{AuthorizerBuilder, BlockBuilder, Scope};
use biscuit_auth::datalog::SymbolTable;
use biscuit_auth::format::schema;
use biscuit_auth::{Biscuit, PublicKey, UnverifiedBiscuit};
use prost::Message;
use rand::rngs::StdRng;
use rand::{Rng, SeedableRng};
use serde_json::{json, Value};

const STRS: &[&str] = &["read", "s1", "s2", "s3", "write"];
const KEYS: &[&str] = &["KA", "KB"];
const PREDS: &[&str] = &["resource", "operation", "right", "owner"];

fn key_of(name: &str) -> PublicKey {
    keys::keypair(name, if name == "KB" { "p256" } else { "ed" }).public()
}

fn key_name(printed: &str) -> String {
    for k in KEYS.iter().chain(["E1", "E2"].iter()) {
        let alg = if *k == "KB" || *k == "E2" { "p256" } else { "ed" };
        if keys::keypair(k, alg).public().print() == printed {
            return k.to_string();
        }
    }
    format!("<{printed}>")
}

fn key_name_hex(hexkey: &str) -> String {
    for k in KEYS.iter().chain(["E1", "E2"].iter()) {
        let alg = if *k == "KB" || *k == "E2" { "p256" } else { "ed" };
        if hex::encode(keys::keypair(k, alg).public().to_bytes()) == hexkey {
            return k.to_string();
        }
    }
    format!("<{hexkey}>")
}

fn random_content(rng: &mut StdRng) -> Value {
    let n = rng.gen_range(1..4);
    let strs: Vec<&str> = (0..n).map(|_| STRS[rng.gen_range(0..STRS.len())]).collect();
    let ck = if rng.gen_bool(0.5) { KEYS[rng.gen_range(0..2)] } else { "none" };
    let bk = if rng.gen_bool(0.3) { KEYS[rng.gen_range(0..2)] } else { "none" };
    json!({"strs": strs, "ckey": ck, "bkey": bk})
}

fn content_code(c: &Value) -> String {
    let mut s = String::new();
    for (i, x) in c["strs"].as_array().unwrap().iter().enumerate() {
        s += &format!("{}(\"{}\");\n", PREDS[i % PREDS.len()], x.as_str().unwrap());
    }
    let ck = c["ckey"].as_str().unwrap();
    if ck != "none" {
        s += &format!("check if resource(\"read\") trusting {};\n", key_of(ck).print());
    }
    s
}

fn builder_of(c: &Value) -> BlockBuilder {
    let mut b = BlockBuilder::new().code(content_code(c)).expect("content parses");
    let bk = c["bkey"].as_str().unwrap();
    if bk != "none" {
        b = b.scope(Scope::PublicKey(key_of(bk)));
    }
    b
}

enum Tok {
    V(Biscuit),
    U(UnverifiedBiscuit),
}
impl Tok {
    fn to_vec(&self) -> Vec<u8> {
        match self {
            Tok::V(b) => b.to_vec().unwrap(),
            Tok::U(b) => b.to_vec().unwrap(),
        }
    }
    fn tables(&self) -> Value {
        match self {
            Tok::V(b) => b.verif_tables(),
            Tok::U(b) => b.verif_tables(),
        }
    }
    fn sources(&self) -> Vec<String> {
        let n = match self {
            Tok::V(b) => b.block_count(),
            Tok::U(b) => b.block_count(),
        };
        (0..n)
            .map(|i| match self {
                Tok::V(b) => b.print_block_source(i).unwrap_or_else(|e| format!("ERR {e:?}")),
                Tok::U(b) => b.print_block_source(i).unwrap_or_else(|e| format!("ERR {e:?}")),
            })
            .collect()
    }
}

/// projection of the hook output: [syms, keys (names), blocks: [tp, dsyms, dkeys]]
fn project(t: &Tok, bytes: &[u8]) -> Value {
    let tb = t.tables();
    let wire = schema::Biscuit::decode(bytes).unwrap();
    let tp: Vec<bool> = std::iter::once(&wire.authority).chain(wire.blocks.iter()).map(|b| b.external_signature.is_some()).collect();
    let keys: Vec<String> = tb["public_keys"].as_array().unwrap().iter().map(|k| key_name(k.as_str().unwrap())).collect();
    let blocks: Vec<Value> = tb["blocks"]
        .as_array()
        .unwrap()
        .iter()
        .enumerate()
        .map(|(i, b)| {
            let dk: Vec<String> = b["public_keys"].as_array().unwrap().iter().map(|k| key_name_hex(k.as_str().unwrap())).collect();
            json!({"tp": tp[i], "dsyms": b["symbols"], "dkeys": dk})
        })
        .collect();
    json!({"syms": tb["symbols"], "keys": keys, "blocks": blocks})
}

const AUTHZ: &[&str] = &[
    "allow if true;",
    "allow if resource(\"s1\"); deny if true;",
    "check if operation($x); allow if true;",
    "allow if resource($x), operation($x) trusting previous; deny if true;",
];

fn authz_results(b: &Biscuit) -> Vec<String> {
    AUTHZ
        .iter()
        .map(|a| {
            let r = AuthorizerBuilder::new().code(a).and_then(|ab| ab.limits(crate::auth::big_limits()).build(b)).and_then(|mut z| z.authorize());
            let s = format!("{r:?}");
            // error texts embed printed checks; keep the structure only
            s.chars().take(200).collect()
        })
        .collect()
}

pub fn record_run(run: usize, seed: u64) -> (Vec<Value>, Vec<Value>) {
    let mut rng = StdRng::seed_from_u64(seed.wrapping_mul(7_777_777).wrapping_add(run as u64));
    let root = keys::keypair("R", "ed");
    let mut events = vec![json!({"ev": "reset", "run": run})];
    let mut direct: Vec<Value> = Vec::new();
    let mut toks: Vec<Tok> = Vec::new();
    let nops = rng.gen_range(2..6);
    for step in 0..nops {
        let content = random_content(&mut rng);
        let (name, from, res): (&str, usize, Result<Tok, String>) = if toks.is_empty() {
            let mut bb = Biscuit::builder().code(content_code(&content)).unwrap();
            let bk = content["bkey"].as_str().unwrap();
            if bk != "none" {
                bb = bb.scope(Scope::PublicKey(key_of(bk)));
            }
            ("build", 0, bb.build_with_key_pair(&root, SymbolTable::new(), &keys::keypair("n0", "ed")).map(Tok::V).map_err(|e| format!("{e:?}")))
        } else {
            let from = rng.gen_range(0..toks.len());
            let unv = rng.gen_bool(0.5);
            let nk = keys::keypair(&format!("n{run}_{step}"), "ed");
            let src_u = if unv {
                match UnverifiedBiscuit::from(toks[from].to_vec()) {
                    Ok(u) => Some(u),
                    Err(e) => {
                        // already reported when that token was produced; its run is broken for the trace spec
                        direct.push(json!({"run": run, "step": step, "problem": format!("a token produced by the API does not reload: {e:?}")}));
                        break;
                    }
                }
            } else {
                None
            };
            let choice = rng.gen_range(0..100);
            if choice < 45 {
                let r = match (&src_u, &toks[from]) {
                    (Some(u), _) => u.append_with_keypair(&nk, builder_of(&content)).map(Tok::U),
                    (None, Tok::V(b)) => b.append_with_keypair(&nk, builder_of(&content)).map(Tok::V),
                    (None, Tok::U(u)) => u.append_with_keypair(&nk, builder_of(&content)).map(Tok::U),
                };
                ("append", from + 1, r.map_err(|e| format!("{e:?}")))
            } else if choice < 88 {
                let ek = keys::keypair(if rng.gen_bool(0.5) { "E1" } else { "E2" }, if rng.gen_bool(0.5) { "ed" } else { "ed" });
                let r: Result<Tok, biscuit_auth::error::Token> = (|| match (&src_u, &toks[from]) {
                    (Some(u), _) => {
                        let blk = u.third_party_request()?.create_block(&ek.private(), builder_of(&content))?;
                        Ok(Tok::U(u.append_third_party_with_keypair(&blk.serialize()?, nk)?))
                    }
                    (None, Tok::V(b)) => {
                        let blk = b.third_party_request()?.create_block(&ek.private(), builder_of(&content))?;
                        Ok(Tok::V(b.append_third_party_with_keypair(ek.public(), blk, nk)?))
                    }
                    (None, Tok::U(u)) => {
                        let blk = u.third_party_request()?.create_block(&ek.private(), builder_of(&content))?;
                        Ok(Tok::U(u.append_third_party_with_keypair(&blk.serialize()?, nk)?))
                    }
                })();
                ("append3p", from + 1, r.map_err(|e| format!("{e:?}")))
            } else {
                let r = match &toks[from] {
                    Tok::V(b) => b.seal().map(Tok::V),
                    Tok::U(u) => u.seal().map(Tok::U),
                };
                ("seal", from + 1, r.map_err(|e| format!("{e:?}")))
            }
        };
        let t = match res {
            Ok(t) => t,
            Err(e) => {
                // refused operations (append on sealed) are not part of this property
                if !e.contains("Sealed") {
                    direct.push(json!({"run": run, "step": step, "problem": format!("{name} failed: {e}")}));
                }
                continue;
            }
        };
        let bytes = t.to_vec();
        let st = project(&t, &bytes);
        // reload (verified and unverified) and compare
        let rl_v = Biscuit::from(&bytes, root.public());
        let rl_u = UnverifiedBiscuit::from(&bytes);
        let mut direct_ok = true;
        let mut rl = json!({"syms": [], "keys": []});
        let rl_ok = rl_v.is_ok() && rl_u.is_ok();
        if let (Ok(v), Ok(u)) = (rl_v, rl_u) {
            let pv = project(&Tok::V(v.clone()), &bytes);
            let pu = project(&Tok::U(u.clone()), &bytes);
            rl = json!({"syms": pv["syms"], "keys": pv["keys"]});
            if pv != pu {
                direct_ok = false;
                direct.push(json!({"run": run, "step": step, "problem": "verified and unverified reload expose different tables"}));
            }
            let mem_src = t.sources();
            let v_src = Tok::V(v.clone()).sources();
            let u_src = Tok::U(u).sources();
            if mem_src != v_src {
                direct_ok = false;
                direct.push(json!({"run": run, "step": step, "problem": format!("block sources differ between the in-memory token and the reloaded (verified) one: {:?} vs {:?}", mem_src, v_src)}));
            }
            if v_src != u_src {
                direct_ok = false;
                let i = (0..v_src.len()).find(|i| v_src[*i] != u_src[*i]).unwrap_or(0);
                direct.push(json!({"run": run, "step": step, "problem": format!("block sources differ between Biscuit and UnverifiedBiscuit for the same bytes (block {i}): {:?} vs {:?}", v_src[i], u_src[i])}));
            }
            // authorization: in-memory (through verify for the unverified path) vs reloaded
            let mem_b = match &t {
                Tok::V(b) => Some(b.clone()),
                Tok::U(u) => u.clone().verify(root.public()).ok(),
            };
            if let Some(mb) = mem_b {
                if authz_results(&mb) != authz_results(&v) {
                    direct_ok = false;
                    direct.push(json!({"run": run, "step": step, "problem": "authorization differs between the in-memory token and the reloaded one"}));
                }
            }
        } else {
            direct.push(json!({"run": run, "step": step, "problem": "the serialized token does not reload"}));
        }
        // the authored text must be what every block prints (resolution)
        events.push(json!({"ev": name, "from": from, "content": content, "st": st, "rl": rl, "rl_ok": rl_ok, "direct_ok": direct_ok,
                           "api": match &t { Tok::V(_) => "v", Tok::U(_) => "u" }}));
        toks.push(t);
    }
    // redeclaration: re-emit the last first-party block's declared symbols in a forged (correctly chained
    // is not needed: refusal must come from the table check or from the signature check) wire token
    if let Some(t) = toks.last() {
        let bytes = t.to_vec();
        let mut wire = schema::Biscuit::decode(&bytes[..]).unwrap();
        if let Ok(mut blk) = schema::Block::decode(&wire.authority.block[..]) {
            // authority redeclares a default symbol
            blk.symbols.push("read".to_string());
            wire.authority.block = blk.encode_to_vec();
            let forged = wire.encode_to_vec();
            let refused = UnverifiedBiscuit::from(&forged).is_err();
            events.push(json!({"ev": "redeclared", "what": "default-symbol", "refused": refused}));
        }
    }
    (events, direct)
}

pub fn cmd_record(nruns: usize, out: &str) {
    let seed = keys::seed();
    let cases: Vec<Value> = (0..nruns).map(|i| json!(i)).collect();
    let rows = util::par_map(cases, || (), move |_, i, _| record_run(i, seed));
    let mut flat: Vec<Value> = Vec::new();
    let mut direct: Vec<Value> = Vec::new();
    for (e, d) in rows {
        flat.extend(e);
        direct.extend(d);
    }
    util::write_ndjson(out, &flat);
    util::write_ndjson(&format!("{out}.direct"), &direct);
    println!("sym-record: {} runs, {} events, {} direct problems", nruns, flat.len(), direct.len());
}
