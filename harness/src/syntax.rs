//! C14: replay of spec/Syntax.tla: string literals and expression derivations through
//! the real printers (builder Display, symbol-table printer) and the real parser.
use crate::keys;
use crate::util;
use biscuit_auth::builder::{self, Binary, BlockBuilder, Check, CheckKind, Expression, Fact, Op, Rule, Term, Unary};
use biscuit_auth::datalog::SymbolTable;
use biscuit_auth::Biscuit;
use serde_json::{json, Value};
use std::convert::TryFrom;

fn ch(tok: &str) -> &str {
    match tok {
        "QUOTE" => "\"",
        "BACKSLASH" => "\\",
        "NEWLINE" => "\n",
        "TAB" => "\t",
        "NUL" => "\0",
        "COMBINING" => "\u{301}",
        o => o,
    }
}

fn concrete(seq: &Value) -> String {
    seq.as_array().unwrap().iter().map(|t| ch(t.as_str().unwrap())).collect()
}

fn replay_string(case: &Value) -> Vec<String> {
    let mut problems = Vec::new();
    let s = concrete(&case["s"]);
    let want_lit = concrete(&case["text"]);
    let fact = builder::fact("f", &[builder::string(&s)]);
    // printer 1: builder Display
    let printed = fact.to_string();
    let want = format!("f({want_lit})");
    // (a raw newline inside a literal is also valid Datalog: the printed text is only required to parse back)
    let _ = &want;
    // the printed text must parse back to the same fact, as ONE fact
    match Fact::try_from(printed.as_str()) {
        Ok(f2) => {
            if f2.predicate != fact.predicate {
                problems.push(format!("printed fact {printed:?} parses back to another fact: {:?}", f2.predicate));
            }
        }
        Err(e) => problems.push(format!("printed fact {printed:?} does not parse: {e:?}")),
    }
    match BlockBuilder::new().code(format!("{printed};")) {
        Ok(bb) => {
            let (f, r, c) = (bb.facts.len(), bb.rules.len(), bb.checks.len());
            if (f, r, c) != (1, 0, 0) {
                problems.push(format!("printed fact {printed:?} parses as {f} facts, {r} rules, {c} checks"));
            }
        }
        Err(e) => problems.push(format!("printed fact {printed:?} does not parse as a block: {e:?}")),
    }
    // printer 2: block source printed from a token (symbol table printer), fed back to the builders
    let root = keys::keypair("R", "ed");
    let nk = keys::keypair("K1", "ed");
    let t = Biscuit::builder().fact(fact.clone()).and_then(|b| b.build_with_key_pair(&root, SymbolTable::new(), &nk));
    match t {
        Ok(t) => {
            let src = t.print_block_source(0).unwrap_or_else(|e| format!("ERR {e:?}"));

            match Biscuit::builder().code(&src).and_then(|b| b.build_with_key_pair(&root, SymbolTable::new(), &nk)) {
                Ok(t2) => {
                    if t2.to_vec().ok() != t.to_vec().ok() {
                        problems.push(format!("block source {src:?} builds another block than the one it was printed from"));
                    }
                }
                Err(e) => problems.push(format!("printed block source {src:?} does not parse: {e:?}")),
            }
        }
        Err(e) => problems.push(format!("cannot build a token with the fact: {e:?}")),
    }
    problems
}

fn atom(a: &str) -> Term {
    match a {
        "1" => Term::Integer(1),
        "$x" => Term::Variable("x".to_string()),
        "$p" => Term::Variable("p".to_string()),
        "true" => Term::Bool(true),
        o => panic!("atom {o}"),
    }
}

fn binary(op: &str) -> Binary {
    use Binary::*;
    match op {
        "LazyOr" => LazyOr, "LazyAnd" => LazyAnd, "LessThan" => LessThan, "GreaterThan" => GreaterThan,
        "LessOrEqual" => LessOrEqual, "GreaterOrEqual" => GreaterOrEqual, "Equal" => Equal, "NotEqual" => NotEqual,
        "HeterogeneousEqual" => HeterogeneousEqual, "HeterogeneousNotEqual" => HeterogeneousNotEqual,
        "BitwiseXor" => BitwiseXor, "BitwiseOr" => BitwiseOr, "BitwiseAnd" => BitwiseAnd,
        "Add" => Add, "Sub" => Sub, "Mul" => Mul, "Div" => Div,
        "Contains" => Contains, "Prefix" => Prefix, "Suffix" => Suffix, "Regex" => Regex,
        "Intersection" => Intersection, "Union" => Union, "Get" => Get, "All" => All, "Any" => Any,
        o => panic!("binary {o}"),
    }
}

fn ops_of(e: &Value, out: &mut Vec<Op>) {
    let op = e["op"].as_str().unwrap();
    let a = e["a"].as_array().unwrap();
    match e["k"].as_str().unwrap() {
        "atom" => out.push(Op::Value(atom(op))),
        "un" => {
            ops_of(&a[0], out);
            out.push(Op::Unary(match op {
                "Negate" => Unary::Negate,
                "Parens" => Unary::Parens,
                "Length" => Unary::Length,
                "TypeOf" => Unary::TypeOf,
                o => panic!("unary {o}"),
            }));
        }
        "bin" => {
            ops_of(&a[0], out);
            if op == "LazyAnd" || op == "LazyOr" {
                let mut body = Vec::new();
                ops_of(&a[1], &mut body);
                out.push(Op::Closure(vec![], body));
            } else {
                ops_of(&a[1], out);
            }
            out.push(Op::Binary(binary(op)));
        }
        "quant" => {
            ops_of(&a[0], out);
            let mut body = Vec::new();
            ops_of(&a[1], &mut body);
            out.push(Op::Closure(vec!["p".to_string()], body));
            out.push(Op::Binary(binary(op)));
        }
        o => panic!("node {o}"),
    }
}

fn squeeze(s: &str) -> String {
    s.chars().filter(|c| !c.is_whitespace()).collect()
}

fn replay_expr(case: &Value) -> Vec<String> {
    let mut problems = Vec::new();
    let mut ops = Vec::new();
    ops_of(&case["ast"], &mut ops);
    let expr = Expression { ops: ops.clone() };
    let q = Rule::new(builder::pred("query", &[] as &[Term]), vec![builder::pred("f", &[builder::var("x")])], vec![expr], vec![]);
    let check = Check { queries: vec![q], kind: CheckKind::One };
    let printed = check.to_string();
    let want: String = case["text"].as_array().unwrap().iter().map(|t| t.as_str().unwrap()).collect::<Vec<_>>().join(" ");
    let want_full = format!("check if f($x), {want}");
    if squeeze(&printed) != squeeze(&want_full) {
        problems.push(format!("printer writes {printed:?}, the spec's text is {want_full:?}"));
    }
    match Check::try_from(printed.as_str()) {
        Ok(c2) => {
            let got = c2.queries.get(0).and_then(|q| q.expressions.get(0)).map(|e| e.ops.clone());
            if got.as_ref() != Some(&ops) {
                problems.push(format!("{printed:?} parses back to another expression: {:?} instead of {:?}", got, ops));
            }
            if c2.queries.len() != 1 || c2.queries[0].expressions.len() != 1 || c2.queries[0].body.len() != 1 {
                problems.push(format!("{printed:?} parses back to another check shape"));
            }
        }
        Err(e) => problems.push(format!("{printed:?} does not parse: {e:?}")),
    }
    problems
}

// ------------------------------------------------------------------ Part 3: items
fn item_term(kind: &str) -> Term {
    use std::collections::{BTreeMap, BTreeSet};
    match kind {
        "i1" => builder::int(1),
        "ineg" => builder::int(-5),
        "str" => builder::string("ab"),
        "date" => Term::Date(1577836800),
        "bytes" => builder::bytes(&[1, 2]),
        "btrue" => builder::boolean(true),
        "null" => Term::Null,
        "set" => { let mut s = BTreeSet::new(); s.insert(builder::int(1)); s.insert(builder::int(2)); Term::Set(s) }
        "arr" => Term::Array(vec![builder::int(1), builder::string("a")]),
        "map" => { let mut m = BTreeMap::new(); m.insert(builder::MapKey::Str("k".to_string()), builder::int(1)); Term::Map(m) }
        o => panic!("term kind {o}"),
    }
}

fn item_scopes(sc: &Value) -> Vec<builder::Scope> {
    sc.as_array().unwrap().iter().map(|x| match x.as_str().unwrap() {
        "authority" => builder::Scope::Authority,
        "previous" => builder::Scope::Previous,
        "KED" => builder::Scope::PublicKey(keys::keypair("PK", "ed").public()),
        "KP256" => builder::Scope::PublicKey(keys::keypair("PK", "p256").public()),
        o => panic!("scope {o}"),
    }).collect()
}

fn item_queries(it: &Value) -> Vec<Rule> {
    let x = builder::var("x");
    let mut qs = vec![Rule::new(builder::pred("query", &[] as &[Term]),
        vec![builder::pred("f", &[x.clone()]), builder::pred("g", &[item_term(it["t"].as_str().unwrap())])], vec![], item_scopes(&it["sc"]))];
    if it["alt"].as_bool().unwrap() {
        qs.push(Rule::new(builder::pred("query", &[] as &[Term]), vec![builder::pred("h", &[x])], vec![], item_scopes(&it["sc2"])));
    }
    qs
}

enum It { F(Fact), R(Rule), C(Check), P(builder::Policy) }

fn replay_item(case: &Value) -> Vec<String> {
    use biscuit_auth::builder::{AuthorizerBuilder, PolicyKind};
    let mut problems = Vec::new();
    let it = &case["item"];
    let want = case["text"].as_str().unwrap()
        .replace("KED", &keys::keypair("PK", "ed").public().print())
        .replace("KP256", &keys::keypair("PK", "p256").public().print());
    let item = match it["kind"].as_str().unwrap() {
        "fact" => It::F(builder::fact("f", &[item_term(it["t"].as_str().unwrap())])),
        "rule" => It::R(Rule::new(builder::pred("r", &[builder::var("x"), item_term(it["t"].as_str().unwrap())]),
            vec![builder::pred("f", &[builder::var("x")]), builder::pred("g", &[item_term(it["t2"].as_str().unwrap())])], vec![], item_scopes(&it["sc"]))),
        "check" => It::C(Check { queries: item_queries(it), kind: match it["sub"].as_str().unwrap() { "one" => CheckKind::One, "all" => CheckKind::All, _ => CheckKind::Reject } }),
        _ => It::P(builder::Policy { queries: item_queries(it), kind: if it["sub"] == "allow" { PolicyKind::Allow } else { PolicyKind::Deny } }),
    };
    // printer 1: builder Display, parsed back by the item parser
    let printed = match &item { It::F(x) => x.to_string(), It::R(x) => x.to_string(), It::C(x) => x.to_string(), It::P(x) => x.to_string() };
    if squeeze(&printed) != squeeze(&want) {
        problems.push(format!("builder printer writes {printed:?}, the spec's text is {want:?}"));
    }
    let same = match &item {
        It::F(x) => Fact::try_from(printed.as_str()).map(|y| &y == x).map_err(|e| format!("{e:?}")),
        It::R(x) => Rule::try_from(printed.as_str()).map(|y| &y == x).map_err(|e| format!("{e:?}")),
        It::C(x) => Check::try_from(printed.as_str()).map(|y| &y == x).map_err(|e| format!("{e:?}")),
        It::P(x) => builder::Policy::try_from(printed.as_str()).map(|y| &y == x).map_err(|e| format!("{e:?}")),
    };
    match same {
        Ok(true) => {}
        Ok(false) => problems.push(format!("builder text {printed:?} parses back to another item")),
        Err(e) => problems.push(format!("builder text {printed:?} does not parse: {e}")),
    }
    // printer 2: the token's block source (symbol table printer), authority block and an appended block
    let root = keys::keypair("R", "ed");
    let mk_block = |item: &It| -> Option<BlockBuilder> {
        match item {
            It::F(x) => BlockBuilder::new().fact(x.clone()).ok(),
            It::R(x) => BlockBuilder::new().rule(x.clone()).ok(),
            It::C(x) => BlockBuilder::new().check(x.clone()).ok(),
            It::P(_) => None,
        }
    };
    if let Some(bb) = mk_block(&item) {
        let r: Result<Vec<(usize, String)>, String> = (|| {
            let e = |e: biscuit_auth::error::Token| format!("{e:?}");
            let t0 = Biscuit::builder().merge(bb.clone()).build_with_key_pair(&root, SymbolTable::new(), &keys::keypair("K1", "ed")).map_err(e)?;
            let t1 = Biscuit::builder().code("z(0);").map_err(e)?.build_with_key_pair(&root, SymbolTable::new(), &keys::keypair("K1", "ed")).map_err(e)?
                .append_with_keypair(&keys::keypair("K2", "ed"), bb.clone()).map_err(e)?;
            // also after a serialization round trip, and through the unverified reader
            let t1b = Biscuit::from(t1.to_vec().map_err(e)?, root.public()).map_err(e)?;
            let u1 = biscuit_auth::UnverifiedBiscuit::from(t1.to_vec().map_err(e)?).map_err(e)?;
            Ok(vec![(0, t0.print_block_source(0).map_err(e)?), (1, t1.print_block_source(1).map_err(e)?), (1, t1b.print_block_source(1).map_err(e)?),
                    (1, u1.print_block_source(1).map_err(e)?)])
        })();
        match r {
            Err(e) => problems.push(format!("token path: {e}")),
            Ok(srcs) => {
                for (i, src) in srcs {
                    if !squeeze(&src).contains(&squeeze(&want)) {
                        problems.push(format!("block {i} source {src:?} does not contain the spec's text {want:?}"));
                    }
                    match BlockBuilder::new().code(&src) {
                        Ok(b2) => {
                            if b2.facts != bb.facts || b2.rules != bb.rules || b2.checks != bb.checks {
                                problems.push(format!("block {i} source {src:?} parses back to another block"));
                            }
                        }
                        Err(e) => problems.push(format!("block {i} source {src:?} does not parse: {e:?}")),
                    }
                }
            }
        }
    }
    // printer 3: the authorizer's dump (after the item went through the authorizer's symbol table)
    let r: Result<(String, String), String> = (|| {
        let e = |e: biscuit_auth::error::Token| format!("{e:?}");
        let tok = Biscuit::builder().code("z(0);").map_err(e)?.build_with_key_pair(&root, SymbolTable::new(), &keys::keypair("K1", "ed")).map_err(e)?;
        let ab = AuthorizerBuilder::new();
        let ab = match &item {
            It::F(x) => ab.fact(x.clone()), It::R(x) => ab.rule(x.clone()), It::C(x) => ab.check(x.clone()), It::P(x) => ab.policy(x.clone()),
        }.map_err(e)?;
        let a = ab.limits(crate::auth::big_limits()).build(&tok).map_err(e)?;
        Ok((a.dump_code(), a.print_world()))
    })();
    match r {
        Err(e) => problems.push(format!("authorizer path: {e}")),
        Ok((dump, world)) => {
            if !squeeze(&dump).contains(&squeeze(&want)) {
                problems.push(format!("authorizer dump {dump:?} does not contain the spec's text {want:?}"));
            }
            if let Err(e) = AuthorizerBuilder::new().code(&dump) {
                problems.push(format!("authorizer dump {dump:?} does not parse: {e:?}"));
            }
            // the world listing uses the same item syntax for rules and checks
            if matches!(item, It::R(_) | It::C(_)) && !squeeze(&world).contains(&squeeze(&want)) {
                problems.push(format!("authorizer world listing does not contain the spec's text {want:?}: {world:?}"));
            }
        }
    }
    problems
}

fn replay_case(idx: usize, case: &Value) -> Value {
    let r = util::catch(|| if case.get("s").is_some() { replay_string(case) } else if case.get("item").is_some() { replay_item(case) } else { replay_expr(case) });
    let problems = match r {
        Ok(p) => p,
        Err(p) => vec![format!("PANIC {p}")],
    };
    json!({"idx": idx, "ok": problems.is_empty(), "problems": problems})
}

pub fn cmd_replay(input: &str, output: &str) {
    util::quiet_panics();
    let cases = util::read_ndjson(input);
    let rows = util::par_map(cases, || (), |_, i, case| replay_case(i, case));
    util::write_ndjson(output, &rows);
    let bad = rows.iter().filter(|r| !r["ok"].as_bool().unwrap()).count();
    println!("syntax-replay: {} cases, {} disagreements", rows.len(), bad);
}
