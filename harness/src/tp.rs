//! C07: replay of spec/TPMC.tla offers (a third-party response presented to a token under a claimed key).
use crate::chain::{self, token_bytes};
use crate::keys;
use crate::layout::Concretiser;
use crate::util;
use biscuit_auth::format::schema;
use biscuit_auth::{Biscuit, ThirdPartyBlock, UnverifiedBiscuit};
use prost::Message;
use serde_json::{json, Value};

fn replay_case(c: &mut Concretiser, idx: usize, case: &Value) -> Value {
    let sc = &case["sc"];
    let expect = case["accept"].as_bool().unwrap();
    let mut problems: Vec<String> = Vec::new();
    let r = util::catch(|| {
        let mut problems: Vec<String> = Vec::new();
        // build the tokens of the scenario through the real API
        let toks = chain::run_log(sc["log"].as_array().unwrap())?;
        let target = &toks[sc["idx"].as_u64().unwrap() as usize - 1];
        let target_bytes = target.to_vec();
        // the target token must be the spec's token
        if target_bytes != token_bytes(c, &sc["tok"]) {
            problems.push("the target token built by the API differs from the spec token".to_string());
        }
        let resp = &sc["resp"];
        let contents = schema::ThirdPartyBlockContents {
            payload: c.payload(resp["payload"].as_str().unwrap()),
            external_signature: schema::ExternalSignature {
                signature: c.sig(&resp["sig"]),
                public_key: schema::PublicKey {
                    algorithm: keys::alg_code(resp["key"]["alg"].as_str().unwrap()),
                    key: keys::public_of(&resp["key"]).to_bytes(),
                },
            },
        };
        let bytes = contents.encode_to_vec();
        let claimed = keys::public_of(&sc["claimed"]);
        let nk = keys::keypair("KN", "ed");
        let root = keys::public_of(&sc["log"][sc["idx"].as_u64().unwrap() as usize - 1]["root"]);
        let want = token_bytes(c, &case["result"]);
        // verified path: the holder states the key it expects
        let v = Biscuit::from(&target_bytes, root).map_err(|e| format!("target does not load: {e:?}"))?;
        let rv = ThirdPartyBlock::verif_from_bytes(&bytes)
            .and_then(|b| v.append_third_party_with_keypair(claimed, b, keys::keypair("KN", "ed")));
        match (&rv, expect) {
            (Ok(t), true) => {
                if t.to_vec().unwrap() != want {
                    problems.push("verified path: accepted, but the resulting token differs from the spec's".to_string());
                }
                if Biscuit::from(t.to_vec().unwrap(), root).is_err() {
                    problems.push("verified path: the resulting token does not verify".to_string());
                }
            }
            (Ok(_), false) => problems.push("verified path: response accepted, the spec refuses it".to_string()),
            (Err(e), true) => problems.push(format!("verified path: response refused ({e:?}), the spec accepts it")),
            (Err(_), false) => {}
        }
        // unverified path: no claimed key; the response's own key is taken. Accepting a response whose
        // signature is wrong is the violation; the later verify() must in any case refuse the token.
        let u = UnverifiedBiscuit::from(&target_bytes).map_err(|e| format!("target does not load: {e:?}"))?;
        let ru = u.append_third_party_with_keypair(&bytes, nk);
        let expect_u = case["accept_own_key"].as_bool().unwrap_or(expect);
        match ru {
            Ok(t) => {
                let verifies = t.clone().verify(root).is_ok();
                if verifies != expect_u {
                    problems.push(format!("unverified path: resulting token verifies={verifies}, the spec says {expect_u}"));
                }
            }
            Err(e) => {
                if expect_u {
                    problems.push(format!("unverified path: response refused ({e:?}), the spec accepts it under its own key"));
                }
            }
        }
        Ok::<Vec<String>, String>(problems)
    });
    match r {
        Ok(Ok(p)) => problems.extend(p),
        Ok(Err(e)) => problems.push(e),
        Err(p) => problems.push(format!("PANIC {p}")),
    }
    json!({"idx": idx, "ok": problems.is_empty(), "problems": problems, "kind": sc["kind"], "target": sc["target"]})
}

pub fn cmd_replay(input: &str, output: &str) {
    util::quiet_panics();
    let cases = util::read_ndjson(input);
    let table = chain::payload_table();
    let rows = util::par_map(cases, move || Concretiser::new(table.clone()), |c, i, case| replay_case(c, i, case));
    util::write_ndjson(output, &rows);
    let bad = rows.iter().filter(|r| !r["ok"].as_bool().unwrap()).count();
    println!("tp-replay: {} cases, {} disagreements", rows.len(), bad);
}
