use serde_json::Value;
use std::io::{BufRead, Write};
use std::sync::{Arc, Mutex};

pub fn read_ndjson(path: &str) -> Vec<Value> {
    let f = std::fs::File::open(path).unwrap_or_else(|e| panic!("open {path}: {e}"));
    let mut out = Vec::new();
    for line in std::io::BufReader::new(f).lines() {
        let line = line.unwrap();
        let line = line.trim();
        if line.is_empty() {
            continue;
        }
        out.push(serde_json::from_str(line).unwrap_or_else(|e| panic!("bad json: {e}: {line}")));
    }
    out
}

/// Run `f(thread_state, index, case)` over all cases with `nthreads` workers;
/// results are returned in case order.
pub fn par_map<S, R: Send + 'static>(
    cases: Vec<Value>,
    mk_state: impl Fn() -> S + Send + Sync + 'static,
    f: impl Fn(&mut S, usize, &Value) -> R + Send + Sync + 'static,
) -> Vec<R> {
    let n = cases.len();
    let cases = Arc::new(cases);
    let next = Arc::new(Mutex::new(0usize));
    let results: Arc<Mutex<Vec<Option<R>>>> = Arc::new(Mutex::new((0..n).map(|_| None).collect()));
    let mk_state = Arc::new(mk_state);
    let f = Arc::new(f);
    let nthreads = std::env::var("VH_THREADS")
        .ok()
        .and_then(|s| s.parse().ok())
        .unwrap_or(12usize)
        .max(1);
    let mut handles = Vec::new();
    for _ in 0..nthreads {
        let cases = cases.clone();
        let next = next.clone();
        let results = results.clone();
        let mk_state = mk_state.clone();
        let f = f.clone();
        handles.push(
            std::thread::Builder::new()
                .stack_size(256 << 20)
                .spawn(move || {
                    let mut st = mk_state();
                    loop {
                        let i = {
                            let mut g = next.lock().unwrap();
                            let i = *g;
                            *g += 1;
                            i
                        };
                        if i >= cases.len() {
                            break;
                        }
                        let r = f(&mut st, i, &cases[i]);
                        results.lock().unwrap()[i] = Some(r);
                    }
                })
                .unwrap(),
        );
    }
    for h in handles {
        h.join().expect("worker thread panicked");
    }
    let mut g = results.lock().unwrap();
    g.drain(..).map(|x| x.unwrap()).collect()
}

pub fn write_ndjson(path: &str, rows: &[Value]) {
    let mut f = std::io::BufWriter::new(std::fs::File::create(path).unwrap());
    for r in rows {
        writeln!(f, "{}", r).unwrap();
    }
}

/// run a closure catching panics; returns Err(panic message)
pub fn catch<R>(f: impl FnOnce() -> R) -> Result<R, String> {
    match std::panic::catch_unwind(std::panic::AssertUnwindSafe(f)) {
        Ok(r) => Ok(r),
        Err(e) => {
            let msg = if let Some(s) = e.downcast_ref::<&str>() {
                s.to_string()
            } else if let Some(s) = e.downcast_ref::<String>() {
                s.clone()
            } else {
                "panic".to_string()
            };
            Err(msg)
        }
    }
}

pub fn quiet_panics() {
    std::panic::set_hook(Box::new(|_| {}));
}
