//! C16: replay of spec/Version.tla (feature sets x third-party flag x declared version).
use crate::keys;
use crate::layout::Concretiser;
use crate::util;
use biscuit_auth::builder::{BlockBuilder, Scope};
use biscuit_auth::datalog::SymbolTable;
use biscuit_auth::format::schema;
use biscuit_auth::Biscuit;
use prost::Message;
use serde_json::{json, Value};
use std::collections::HashMap;

/// "<operator>@<place>": the operator somewhere else than first in a check's first expression
fn placed_snippet(f: &str) -> Option<String> {
    let (op, place) = f.split_once('@')?;
    // (the operator alone, the operator after an older binary operator of the same expression)
    let (plain, after) = match op {
        "op_bitand" => ("($x & 3) > 0", "($x + 1 & 3) > 0"),
        "op_bitor" => ("($x | 3) > 0", "($x + 1 | 3) > 0"),
        "op_bitxor" => ("($x ^ 3) > 0", "($x + 1 ^ 3) > 0"),
        "op_strict_noteq" => ("$x !== 9", "$x + 1 !== 9"),
        "hetero_eq" => ("$x == 1", "$x + 0 == 1"),
        "hetero_neq" => ("$x != 9", "$x + 1 != 9"),
        "typeof" => ("$x.type() === \"integer\"", "($x + 1).type() === \"integer\""),
        "closure_lazy_or" => ("$x > 0 || $x < 9", "$x + 1 > 0 || $x < 9"),
        o => panic!("unknown placed operator {o}"),
    };
    Some(match place {
        "after_older" => format!("check if f($x), {after};"),
        "second_expr" => format!("check if f($x), $x > 0, {plain};"),
        "second_alt" => format!("check if f(0) or f($x), {plain};"),
        "in_rule" => format!("r($x) <- f($x), {after};"),
        o => panic!("unknown place {o}"),
    })
}

/// Datalog snippet exercising exactly one feature (plus 3.0 material)
fn snippet(f: &str) -> (&'static str, bool) {
    if let Some(s) = placed_snippet(f) {
        return (Box::leak(s.into_boxed_str()), false);
    }
    // (code, needs block-level scope)
    match f {
        "plain_fact" => ("f(1);", false),
        "plain_rule" => ("r($x) <- f($x);", false),
        "check_one" => ("check if f($x);", false),
        "op_strict_eq" => ("check if f($x), $x === 1;", false),
        "op_lt" => ("check if f($x), $x < 2;", false),
        "set_fact" => ("s({1, 2});", false),
        "string_ops" => ("check if g($s), $s.starts_with(\"a\");", false),
        "scope_block" => ("f(2);", true),
        "scope_rule" => ("r($x) <- f($x) trusting previous;", false),
        "scope_check" => ("check if f($x) trusting authority;", false),
        "check_all" => ("check all f($x), $x > 0;", false),
        "op_bitand" => ("check if f($x), ($x & 3) > 0;", false),
        "op_bitor" => ("check if f($x), ($x | 3) > 0;", false),
        "op_bitxor" => ("check if f($x), ($x ^ 3) > 0;", false),
        "op_strict_noteq" => ("check if f($x), $x !== 9;", false),
        "reject_if" => ("reject if f(9);", false),
        "closure_lazy_and" => ("check if f($x), $x > 0 && $x < 9;", false),
        "closure_lazy_or" => ("check if f($x), $x > 0 || $x < 9;", false),
        "closure_all" => ("check if s($s), $s.all($p -> $p > 0);", false),
        "closure_any" => ("check if s($s), $s.any($p -> $p > 0);", false),
        "typeof" => ("check if f($x), $x.type() === \"integer\";", false),
        "hetero_eq" => ("check if f($x), $x == 1;", false),
        "hetero_neq" => ("check if f($x), $x != 9;", false),
        "null_fact" => ("n(null);", false),
        "null_rule_head" => ("n(null) <- f($x);", false),
        "null_rule_body" => ("r($x) <- f($x), n(null);", false),
        "null_expr" => ("check if f($x), $x !== 9, null === null;", false),
        "null_in_array" => ("a([null]);", false),
        "array_fact" => ("a([1, 2]);", false),
        "array_rule_body" => ("r($x) <- f($x), a([1, 2]);", false),
        "array_expr" => ("check if f($x), [1, 2].contains($x);", false),
        "map_fact" => ("m({\"a\": 1});", false),
        "map_expr" => ("check if f($x), {\"a\": 1}.contains(\"a\");", false),
        "get_array" => ("check if a($a), $a.get(0) === 1;", false),
        "get_map" => ("check if m($m), $m.get(\"a\") === 1;", false),
        o => panic!("unknown feature {o}"),
    }
}

fn builder_for(fs: &[String]) -> BlockBuilder {
    let mut code = String::new();
    let mut scope = false;
    for f in fs {
        let (c, s) = snippet(f);
        code += c;
        code += "\n";
        scope |= s;
    }
    let mut b = BlockBuilder::new().code(&code).unwrap_or_else(|e| panic!("snippet does not parse: {code}: {e:?}"));
    if scope {
        b = b.scope(Scope::Previous);
    }
    b
}

fn replay_case(c: &mut Concretiser, idx: usize, case: &Value) -> Value {
    let fs: Vec<String> = case["fs"].as_array().unwrap().iter().map(|x| x.as_str().unwrap().to_string()).collect();
    let tp = case["tp"].as_bool().unwrap();
    let d = case["d"].as_u64().unwrap() as u32;
    let declared = case["declared"].as_u64().unwrap() as u32;
    let loads = case["loads"].as_bool().unwrap();
    let mut problems: Vec<String> = Vec::new();
    let r = util::catch(|| {
        let mut problems: Vec<String> = Vec::new();
        let root = keys::keypair("R", "ed");
        // the authority block is plain 3.0 material (arrays and maps would force the chained signature scheme)
        let base = Biscuit::builder().code("f(1); g(\"ab\"); s({1, 2});").unwrap()
            .build_with_key_pair(&root, SymbolTable::new(), &keys::keypair("K1", "ed")).map_err(|e| format!("{e:?}"))?;
        // (1) what the builders declare
        let nk = keys::keypair("K2", "ed");
        let tok = if tp {
            let ek = keys::keypair("E1", "ed");
            let blk = base.third_party_request().and_then(|r| r.create_block(&ek.private(), builder_for(&fs))).map_err(|e| format!("{e:?}"))?;
            base.append_third_party_with_keypair(ek.public(), blk, nk).map_err(|e| format!("{e:?}"))?
        } else {
            base.append_with_keypair(&nk, builder_for(&fs)).map_err(|e| format!("{e:?}"))?
        };
        let got = tok.block_version(1).map_err(|e| format!("{e:?}"))?;
        if got != declared {
            problems.push(format!("builders declare version {got}, the spec says {declared}"));
        }
        // signature version: chained scheme iff third-party or 3.3 content (all keys are ed25519 here)
        let wire = schema::Biscuit::decode(&tok.to_vec().unwrap()[..]).unwrap();
        let sigver = wire.blocks[0].version.unwrap_or(0);
        let auth_sigver = wire.authority.version.unwrap_or(0);
        let want_sigver = if tp || declared >= 6 || auth_sigver == 1 { 1 } else { 0 };
        if sigver != want_sigver {
            problems.push(format!("block signed with signature version {sigver}, the spec says {want_sigver}"));
        }
        // (2) the same block re-declared as version d and correctly signed: accepted iff Loads
        let mut blk = schema::Block::decode(&wire.blocks[0].block[..]).unwrap();
        blk.version = Some(d);
        let payload = blk.encode_to_vec();
        let pid = format!("V{idx}");
        c.payloads.insert(pid.clone(), payload.clone());
        c.payloads.insert("AUTH".to_string(), wire.authority.block.clone());
        let k = |id: &str| json!({"id": id, "alg": "ed"});
        let no = json!([]);
        if auth_sigver != 0 {
            problems.push(format!("a 3.0 authority block was signed with signature version {auth_sigver}"));
        }
        let auth_msg = json!({"tag": "v0", "ver": 0, "payload": "AUTH", "nk": k("K1"), "prev": no, "ext": no});
        let auth_sig = json!({"signer": k("R"), "msg": auth_msg, "form": 0});
        let ext: Value = if tp {
            let em = json!({"tag": "ext", "ver": 1, "payload": pid, "nk": {"id": "none", "alg": "none"}, "prev": [auth_sig], "ext": no});
            json!([{"key": k("E1"), "sig": {"signer": k("E1"), "msg": em, "form": 0}}])
        } else {
            json!([])
        };
        let extsig: Vec<Value> = ext.as_array().unwrap().iter().map(|e| e["sig"].clone()).collect();
        let bmsg = json!({"tag": "v1", "ver": 1, "payload": pid, "nk": k("K2"), "prev": [auth_sig], "ext": extsig});
        let tokv = json!({"rkid": 0,
            "blocks": [
                {"payload": "AUTH", "nk": k("K1"), "sig": auth_sig, "ext": no, "ver": 0},
                {"payload": pid, "nk": k("K2"), "sig": {"signer": k("K1"), "msg": bmsg, "form": 0}, "ext": ext, "ver": 1}],
            "proof": {"kind": "secret", "key": k("K2"), "sig": no}});
        let bytes = crate::chain::token_bytes(c, &tokv);
        let accepted = match Biscuit::from(&bytes, root.public()) {
            Err(e) => {
                // refused already at deserialization
                let _ = e;
                false
            }
            Ok(b) => {
                // "rejected before it can be evaluated": building the authorizer must fail
                let a = b.authorizer();
                let src = b.print_block_source(1);
                let bv = b.block_version(1);
                let ok = a.is_ok();
                if ok != src.is_ok() || ok != bv.is_ok() {
                    problems.push(format!("accessors disagree on an under-declared block: authorizer {:?} source {:?} version {:?}", a.is_ok(), src.is_ok(), bv.is_ok()));
                }
                ok
            }
        };
        if accepted != loads {
            problems.push(format!("block declared as version {d} is {} but the spec says {}", if accepted { "accepted" } else { "refused" }, if loads { "accepted" } else { "refused" }));
        }
        Ok::<Vec<String>, String>(problems)
    });
    match r {
        Ok(Ok(p)) => problems.extend(p),
        Ok(Err(e)) => problems.push(format!("setup failed: {e}")),
        Err(p) => problems.push(format!("PANIC {p}")),
    }
    json!({"idx": idx, "ok": problems.is_empty(), "problems": problems})
}

pub fn cmd_replay(input: &str, output: &str) {
    util::quiet_panics();
    let cases = util::read_ndjson(input);
    let rows = util::par_map(cases, || Concretiser::new(HashMap::new()), |c, i, case| replay_case(c, i, case));
    util::write_ndjson(output, &rows);
    let bad = rows.iter().filter(|r| !r["ok"].as_bool().unwrap()).count();
    println!("ver-replay: {} cases, {} disagreements", rows.len(), bad);
}
