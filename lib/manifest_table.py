HOOK_COMMITS = ["8150921"]

CHECKS = [
 {"id": "C01", "level": "model_checking",
  "text": "TLC explores every honest API history within small bounds and every single Dolev-Yao adversary action over ideal signatures (spec/Chain.tla, ChainMC.tla), checking Accepted => Authentic; every exported adversary token is concretised to real bytes with real keys through an independent implementation of the signed layouts and offered to the four real admission paths, whose verdict must equal the spec's. Model checking is the right level: the property quantifies over all mutations of all tokens, which is a finite state space for bounded tokens, and the binding makes code drift visible.",
  "design_ref": "DESIGN.md section 4 C01",
  "note": "Assumes ideal signatures and trusts harness/src/layout.rs + prost; bounded to tokens of <=3/4 blocks and one adversary action; rejected states are sampled for replay (accepted ones all replayed).",
  "technique": "TLA+ spec + TLC exhaustive BFS; TLC-generated behaviours replayed on the real code"},
 {"id": "C02", "level": "model_checking",
  "text": "TLC enumerates every honest history of build/append/third-party append/seal (both algorithms for every key) and checks Complete/VersionMonotone on the spec; each history is executed through the real API (all Biscuit/UnverifiedBiscuit path mixes) and the produced token must be byte-identical to the concretised spec token (signing is deterministic), so every real signature is a signature by the designated key over the specification's layout; recorded random API runs are projected to abstract tokens and validated by TLC (ChainTrace.tla). Histories are a state space, so model checking + conformance is the natural level.",
  "design_ref": "DESIGN.md section 4 C02",
  "note": "Trusts layout.rs and raw ed25519-dalek/p256 verification used for projection; payload bytes are opaque (taken from the real builders); bounded to <=4/5 operations in TLC, <=8 in recorded runs.",
  "technique": "TLA+ spec + TLC; spec behaviours replayed into the API (byte equality) and recorded API traces validated by TLC"},
 {"id": "C08", "level": "model_checking",
  "text": "TLC explores all honest histories containing seals and every adversary action applied to a sealed token (invariants SoundModuloKnown, SealedFinalModuloKnown); exported tokens are replayed on the four admission paths; every honest history is executed on the real API where each operation on each sealed token must be refused on both API paths and the sealed token must keep blocks, revocation ids and authorisation results; recorded runs are validated by TLC (refused operations must be spec-refused).",
  "design_ref": "DESIGN.md section 4 C08",
  "note": "Ideal signatures; authorisation equality is checked with four fixed authorizers per sealed token on the real code.",
  "technique": "TLA+ spec + TLC; replay of TLC behaviours and TLC validation of recorded traces"},
 {"id": "C15", "level": "model_checking",
  "text": "Revocation-id stability and uniqueness are invariants of ChainMC.tla over all honest histories; non-malleability is checked over every adversary action that keeps a token's blocks, with an explicit second encoding for ECDSA signatures and non-canonical S for ed25519; every exported token is replayed (accepted tokens must present exactly their signature bytes as identifiers); recorded API runs are validated by TLC with ids compared at every step; identical tokens are minted with OS randomness to confirm uniqueness.",
  "design_ref": "DESIGN.md section 4 C15",
  "note": "Ideal signatures; the only signature-level transformations modelled are (r,s)->(r,n-s) for ECDSA and S->S+L for ed25519.",
  "technique": "TLA+ spec + TLC; replay of TLC behaviours and TLC validation of recorded traces"},
 {"id": "C03", "level": "model_checking",
  "text": "One TLC state is a (token, appended block, authorizer) triple from a scope-complete universe satisfying the property's premise; the invariant Monotone (accepted extended token => accepted original with the same policy; failed checks persist; what earlier blocks and the authorizer see is unchanged) is checked on the spec for every triple, and each exported triple is built and authorized on the real library: both results, worlds and queries must equal the spec's and Monotone is asserted directly on the real results.",
  "design_ref": "DESIGN.md section 4 C03",
  "note": "Bounded universes (<=3 blocks, one rule and one check per program plus the appended block's own); non-binding limits; replayed subset is a seeded sample of the checked universe in the quick tier.",
  "technique": "TLA+ spec of scoped Datalog + TLC enumeration of program universes; every exported state replayed on the real authorizer"},
 {"id": "C04", "level": "model_checking",
  "text": "The Biscuit authorization semantics (scope -> trusted origins, least fixpoint with provenance, per-kind check rule, ordered policies, query scoping) is written in TLA+ (Datalog.tla, Authorizer.tla); TLC enumerates scope-complete program universes and computes the exact result (matched policy, ordered failed checks, world with origins, three queries) for each; every exported program is built with the real builders, keys and third-party protocol and the real results must be identical.",
  "design_ref": "DESIGN.md section 4 C04",
  "note": "Error-free programs under non-binding limits; `trusting previous` in the authorizer modelled as implemented; quick tier replays a seeded sample of the `checks` universe and all of `alts`.",
  "technique": "TLA+ spec of scoped Datalog + TLC enumeration of program universes; every exported state replayed on the real authorizer"},
 {"id": "C05", "level": "model_checking",
  "text": "Datalog.tla defines rule application with provenance and the least fixpoint; TLC enumerates small programs (every term type, joins, repeated variables, recursion, empty bodies, guards, unbound head variables, arbitrary origin and trust sets), checks that the result is a supported fixpoint respecting trust, and exports each program with its fixpoint and per-pass level sizes; the real datalog::World must produce exactly the same set of (origin set, fact) pairs, the same level sizes (iteration hook) and the same result under shuffled insertion orders.",
  "design_ref": "DESIGN.md section 4 C05",
  "note": "Non-binding limits; guards restricted to ==, !=, <, division in this universe (expression semantics is C06); programs of <= 2 rules and <= 4 initial facts.",
  "technique": "TLA+ spec of scoped Datalog + TLC enumeration; every exported program replayed on the real engine with iteration-level events"},
]

_TODO = "check not built yet in this round; will be decided with the TLA+ specification (see DESIGN.md section 4)"
NOT_APPLICABLE = [{"property_id": "C%02d" % i, "reason": _TODO} for i in range(1, 21)
                  if "C%02d" % i not in [c["id"] for c in CHECKS]]
