HOOK_COMMITS = []

CHECKS = [
 {"id": "C01", "level": "model_checking",
  "text": "TLC explores every honest API history within small bounds and every single Dolev-Yao adversary action over ideal signatures (spec/Chain.tla, ChainMC.tla), checking Accepted => Authentic; every exported adversary token is concretised to real bytes with real keys through an independent implementation of the signed layouts and offered to the four real admission paths, whose verdict must equal the spec's. Model checking is the right level: the property quantifies over all mutations of all tokens, which is a finite state space for bounded tokens, and the binding makes code drift visible.",
  "design_ref": "DESIGN.md section 4 C01",
  "note": "Assumes ideal signatures and trusts harness/src/layout.rs + prost; bounded to tokens of <=3/4 blocks and one adversary action; rejected states are sampled for replay (accepted ones all replayed).",
  "technique": "TLA+ spec + TLC exhaustive BFS; TLC-generated behaviours replayed on the real code"},
]

_TODO = "check not built yet in this round; will be decided with the TLA+ specification (see DESIGN.md section 4)"
NOT_APPLICABLE = [{"property_id": "C%02d" % i, "reason": _TODO} for i in range(1, 21)
                  if "C%02d" % i not in [c["id"] for c in CHECKS]]
