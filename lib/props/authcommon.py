"""Shared driver code for properties decided on spec/Datalog.tla + Authorizer.tla + AuthMC.tla."""
import collections
import json
import os

import vlib


def consts(**over):
    c = {"Vars": "<- VarsX", "IntVal": "<- NoInts", "Universe": '"checks"', "MaxBlocks": 3,
         "Exts": "<- ExtsAll", "ScopeMenu": "<- Scopes5", "AttenSize": '"small"', "ExportOn": False, "SampleN": 1}
    c.update(over)
    return c


INV = ["OriginsWellFormed", "ScopeIsolation", "Monotone", "TrustDefsAgree"]


def run_universe(ctx, name, c, export=True, timeout=3000, module="AuthMC", invariants=INV, tag="PROG"):
    c = dict(c)
    c["ExportOn"] = bool(export)
    cfg = vlib.write_cfg(os.path.join(ctx.work, name + ".cfg"), c, list(invariants) + ["Export"])
    res = ctx.tlc(module, cfg, name=name, tags=(tag,) if export else (), timeout=timeout, seed=ctx.seed)
    if res.violated:
        raise vlib.ToolError("spec invariant %s violated in %s: see %s" % (res.violated, name, res.outfile))
    if export:
        os.remove(res.outfile)
    return res


def classify(problem):
    """narrow signature of a replay disagreement"""
    p = problem
    if p.startswith("PANIC"):
        return "panic"
    if "MONOTONE" in p:
        return "monotone"
    for key, sig in (("building the token failed", "build-token"), ("building the authorizer failed", "build-authorizer"),
                     ("authorize returned an error", "unexpected-error"), ("matched policy", "policy"),
                     ("authorized=", "decision"), ("failed checks", "failed-checks"), ("world differs", "world"),
                     ("query_all(d)", "query-all-derived"), ("query_all()", "query-all"), ("query()", "query")):
        if key in p:
            return sig
    return "other"


def replay(ctx, path, cmd="auth-replay", sig_prefix="replay:auth", describe=None):
    out = path + ".verdict"
    p = vlib.vh(cmd, path, out)
    vlib.log("[%s] %s" % (ctx.prop, p.stdout.strip()))
    rows = vlib.read_ndjson(out)
    cases = None
    stats = collections.Counter()
    for r in rows:
        if r["ok"]:
            stats["agree"] += 1
            continue
        stats["disagree"] += 1
        if cases is None:
            cases = vlib.read_ndjson(path)
        case = cases[r["idx"]]
        kind = classify(r["problems"][0])
        extra = describe(case, r) if describe else ""
        if extra.startswith(":") and sig_prefix.split(":")[-1] in ("snap", "ver", "params", "syntax", "macro", "ingest", "keys", "capi"):
            kind = ""
            extra = extra[1:]
        if kind == "other":
            first = r["problems"][0]
            kind = "levels" if first.startswith("evaluation levels") else first.split(":")[0].replace(" ", "-")[:40]
        ctx.finding(("%s:%s%s" % (sig_prefix, kind, extra)).replace("::", ":"), "; ".join(r["problems"][:2])[:400],
                    {"kind": cmd, "case": case, "row": r})
    n = len(rows)
    ctx.cov["evaluations"] += n
    ctx.cov["traces_validated_against_impl"] += n
    ctx.cov["distinct_nontrivial"] += n
    ctx.cov["replayed"][os.path.basename(path)] = dict(stats)
    if rows:
        if cases is None:
            with open(path) as f:
                first = json.loads(f.readline())
        else:
            first = cases[0]
        ctx.sample(first)
    return rows, stats


def trace_authorize(ctx, path, limit, name):
    """impl -> spec: authorize() of up to `limit` exported programs is recorded (hook H2: one event per
    evaluated check / policy alternative with the trusted origins used) and validated by TLC against
    the step-wise authorization of AuthorizerTrace.tla."""
    import random
    rnd = random.Random(ctx.seed)
    cases = vlib.read_ndjson(path)
    if len(cases) > limit:
        cases = rnd.sample(cases, limit)
    sub = os.path.join(ctx.work, name + ".progs.ndjson")
    with open(sub, "w") as f:
        for c in cases:
            f.write(json.dumps(c) + "\n")
    trace = os.path.join(ctx.work, name + ".trace.ndjson")
    p = vlib.vh("auth-record", sub, trace)
    ok, states, rej = vlib.trace_validate("AuthorizerTrace", "AuthorizerTrace.cfg", trace, ctx.work, name=name + ".trace", timeout=3000)
    nev = sum(1 for _ in open(trace))
    ctx.cov["states"] += states
    ctx.cov["transitions"] += states
    ctx.cov["traces_validated_against_impl"] += len(cases)
    ctx.cov["replayed"]["trace:" + name] = {"programs": len(cases), "events": nev, "accepted": ok}
    vlib.log("[%s] AuthorizerTrace %s: %d programs, %d events, %s" % (ctx.prop, name, len(cases), nev, "accepted" if ok else "REJECTED"))
    if not ok:
        ev = rej.get("event", {}) if rej else {}
        kind = ev.get("ev", "?") if isinstance(ev, dict) else "?"
        what = ev.get("what", "") if isinstance(ev, dict) else ""
        ctx.finding("trace:AuthorizerTrace:%s%s" % (kind, (":" + what) if what else ""),
                    "event %s is not a step of the spec's authorization: %s" % (rej.get("index") if rej else "?", json.dumps(ev)[:250]),
                    {"kind": "auth-trace", "trace": trace, "rejected": rej})
    return ok


def replay_file(prop, path, cmd_default="auth-replay"):
    d = json.load(open(path))
    rp = d["replay"]
    tmp = os.path.join(vlib.WORK, "replay-%s.ndjson" % prop)
    os.makedirs(vlib.WORK, exist_ok=True)
    with open(tmp, "w") as f:
        f.write(json.dumps(rp["case"]) + "\n")
    p = vlib.vh(rp.get("kind", cmd_default), tmp, tmp + ".verdict", check=False)
    print(p.stdout)
    rows = vlib.read_ndjson(tmp + ".verdict")
    print(json.dumps(rows, indent=1)[:4000])
    if any(not r.get("ok", True) for r in rows):
        print("VIOLATION property=%s replay=%s" % (prop, path))
        return 1
    return 0
