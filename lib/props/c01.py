"""C01 - forged, tampered, spliced or truncated tokens never verify."""
import vlib
from props import chaincommon as cc

LEVEL = "model_checking"


def run(tier, seed):
    ctx = vlib.Ctx("C01", tier, seed, LEVEL)
    ctx.assumptions = [
        "ideal signatures: no signature verifies without having been produced with the signer's secret (Crypto part of spec/Chain.tla)",
        "harness/src/layout.rs (byte concretisation of the spec's signed messages, written from the Biscuit specification) and prost decoding are trusted",
        "bounds: tokens of <= 3 (quick) / 4 (thorough) blocks, one adversary action, adversary knows <= 2 honest tokens",
    ]
    inv = ["SoundModuloKnown", "Complete"]
    if tier == "quick":
        # design check on the full universe
        cc.design(ctx, "design1", cc.consts(), inv)
        cc.design(ctx, "design2", cc.consts(MaxToks=2, KeyAlgs="<- AlgsEd", FPayloads="<- FP1"), inv)
        # exported / replayed subset
        e = cc.export(ctx, "export1", cc.consts(FPayloads="<- FP1", SampleN=8), inv, ("FORGED",))
        cc.replay_forged(ctx, e.exports["FORGED"])
        e = cc.export(ctx, "export2", cc.consts(MaxToks=2, KeyAlgs="<- AlgsEd", FPayloads="<- FP1", SampleN=8), inv, ("FORGED",))
        cc.replay_forged(ctx, e.exports["FORGED"])
        # the deprecated entry points and the delimiter-less v0 layout: a payload tail presented as an external signature
        modes = cc.consts(PayloadVersion="<- PVSplit", FPayloads="<- FPSplit", KeyAlgs="<- AlgsEd", Mutations="<- ModeMutations", SampleN=4)
        e = cc.export(ctx, "modes", modes, inv + ["ModesCoincide", "ModesAgreeOnStd", "SoundInEveryMode"], ("FORGED",))
        cc.replay_forged(ctx, e.exports["FORGED"])
    else:
        cc.design(ctx, "design1", cc.consts(RootAlgs="<- AlgsBoth", ExtAlgs="<- AlgsBoth"), inv, timeout=7200)
        cc.design(ctx, "design2", cc.consts(MaxOps=4, MaxToks=2, KeyAlgs="<- AlgsEd", FPayloads="<- FP1"), inv, timeout=7200)
        cc.design(ctx, "design3", cc.consts(MaxOps=4, MaxBlocks=4, FPayloads="<- FP1"), inv, timeout=7200)
        e = cc.export(ctx, "export1", cc.consts(RootAlgs="<- AlgsBoth", ExtAlgs="<- AlgsBoth", FPayloads="<- FP1", SampleN=2), inv, ("FORGED",), timeout=7200)
        cc.replay_forged(ctx, e.exports["FORGED"])
        e = cc.export(ctx, "export2", cc.consts(MaxOps=4, MaxToks=2, KeyAlgs="<- AlgsEd", FPayloads="<- FP1", SampleN=16), inv, ("FORGED",), timeout=7200)
        cc.replay_forged(ctx, e.exports["FORGED"])
        e = cc.export(ctx, "export3", cc.consts(MaxOps=4, MaxBlocks=4, FPayloads="<- FP1", SampleN=32), inv, ("FORGED",), timeout=7200)
        cc.replay_forged(ctx, e.exports["FORGED"])
        modes = cc.consts(PayloadVersion="<- PVSplit", FPayloads="<- FPSplit", KeyAlgs="<- AlgsEd", Mutations="<- ModeMutations", MaxOps=4, MaxBlocks=4, SampleN=4)
        e = cc.export(ctx, "modes", modes, inv + ["ModesCoincide", "ModesAgreeOnStd", "SoundInEveryMode"], ("FORGED",), timeout=7200)
        cc.replay_forged(ctx, e.exports["FORGED"])
    # implementation -> spec: byte-level variants (bit flips, truncations, insertions, protobuf re-encodings, another root
    # key id) of the tokens of recorded API runs are offered to every entry point; what is ACCEPTED is projected to an
    # abstract token and TLC checks it against the source token (ChainTrace.tla, step TAdmit)
    from props import c02
    trace, events, ok = c02.validate_chain_trace(ctx, 300 if tier == "quick" else 3000, "admit-trace")
    import collections
    adm = collections.Counter((e["kind"], e["path"]) for e in events if e["ev"] == "admit")
    ctx.cov["replayed"]["byte-level-variants-accepted"] = {"%s/%s" % k: v for k, v in sorted(adm.items())}
    for e in events:
        if e["ev"] == "admit-panic":
            ctx.finding("trace:ChainTrace:admit-panic:%s" % e["path"], "a byte-level variant (%s) made entry point %s panic: %s" % (e["kind"], e["path"], e["error"][:200]), {"kind": "chain-trace", "event": e})
    return ctx.finish(
        rule="TLC enumerates every honest API history within the bounds and every single adversary action "
             "(field substitution from the pool of seen values, reorder/drop/duplicate, truncate with every proof, "
             "splice between two known tokens, ECDSA/ed25519 signature re-encoding, blocks forged with known secrets, "
             "proof swap, root key id hint flipped; the verifier is a ROOT KEY PROVIDER id -> key-or-none, every provider over the known roots for the unmodified / "
             "hint-flipped token); invariant Accepted => Authentic (modulo the named weaknesses). Each exported "
             "state is concretised to token bytes and offered to SerializedBiscuit::from_slice, Biscuit::from, "
             "Biscuit::from_base64 and UnverifiedBiscuit::from+verify, and to the deprecated entry points Biscuit::unsafe_deprecated_deserialize and "
             "UnverifiedBiscuit::unsafe_deprecated_deserialize+verify (modes legacy / mixed of Chain.tla; the v0 layout is modelled as the flat chunk sequence it signs, "
             "mutation Resplit presents a payload tail as an external signature); accept/reject must equal the spec's VerifyMode for the entry point. "
             "Byte level: for the tokens of 300 (thorough: 3000) recorded API runs, 5 protobuf re-encodings and 12 random corruptions each are offered to the 6 entry points "
             "under the token's root key; every accepted variant is projected back to an abstract token and TLC checks SameSigned + VerifyMode against the source token "
             "(ChainTrace.tla, TAdmit). distinct_nontrivial counts distinct (mutation kind, block position, spec verdict, authentic) classes replayed.",
        exhaustive=False)


def replay(path, seed):
    return cc.replay_file("C01", path)
