"""C02 - every token the API builds verifies and round-trips byte-exactly."""
import json
import os
import random

import vlib
from props import chaincommon as cc

LEVEL = "model_checking"


def validate_chain_trace(ctx, nruns, name):
    trace = os.path.join(ctx.work, name + ".ndjson")
    p = vlib.vh("chain-record", str(nruns), trace)
    vlib.log("[%s] %s" % (ctx.prop, p.stdout.strip()))
    env = {"PVFILE": trace + ".pv.json"}
    ok, states, rej = vlib.trace_validate("ChainTrace", "ChainTrace.cfg", trace, ctx.work, env_extra=env, name=name)
    events = vlib.read_ndjson(trace)
    ctx.cov["traces_validated_against_impl"] += nruns
    ctx.cov["evaluations"] += len(events)
    ctx.cov["states"] += states
    ctx.cov["transitions"] += states
    ctx.cov["replayed"]["trace:" + name] = {"runs": nruns, "events": len(events), "accepted": ok}
    shapes = set()
    for e in events:
        if "tok" in e:
            shapes.add((e["ev"], len(e["tok"]["blocks"]), tuple((b["ver"], b["nk"]["alg"], len(b["ext"])) for b in e["tok"]["blocks"]), e["tok"]["proof"]["kind"]))
    ctx.cov["distinct_nontrivial"] += len(shapes)
    ctx.sample({"trace_event": {k: (v if k != "tok" else "<projected token with %d blocks>" % len(v["blocks"])) for k, v in events[1].items()}})
    if not ok:
        ev = rej.get("event", {})
        sig = "trace:ChainTrace:%s" % (ev.get("ev", "?") if isinstance(ev, dict) else "?")
        if "invariant" in rej:
            sig = "trace:ChainTrace:invariant:" + rej["invariant"]
        ctx.finding(sig, "trace rejected at event %s" % rej.get("index"), {"kind": "chain-trace", "trace": trace, "rejected": rej})
    return trace, events, ok


def selftest(ctx, trace, events):
    """Binding self-test: a corrupted trace must be rejected."""
    rnd = random.Random(ctx.seed)
    idx = [i for i, e in enumerate(events) if e.get("ev") in ("append", "append3p", "build")]
    results = []
    for kind in ("flip-version", "drop-event", "swap-key"):
        ev = [json.loads(json.dumps(e)) for e in events]
        i = rnd.choice(idx)
        if kind == "flip-version":
            b = ev[i]["tok"]["blocks"][-1]
            b["ver"] = 1 - b["ver"]
        elif kind == "drop-event":
            # drop a build whose token is used by the next event (otherwise the rest can still be a valid trace)
            cands = [j for j, e in enumerate(ev[:-1]) if e.get("ev") == "build" and ev[j + 1].get("from") is not None and ev[j + 1].get("ev") != "reset"]
            del ev[rnd.choice(cands)]
        else:
            ev[i]["tok"]["blocks"][-1]["nk"]["id"] = "someone-else"
        path = os.path.join(ctx.work, "selftest-%s.ndjson" % kind)
        with open(path, "w") as f:
            for e in ev:
                f.write(json.dumps(e) + "\n")
        ok, _, rej = vlib.trace_validate("ChainTrace", "ChainTrace.cfg", path, ctx.work,
                                         env_extra={"PVFILE": trace + ".pv.json"}, name="selftest-" + kind)
        results.append({"corruption": kind, "rejected": not ok})
        if ok:
            raise vlib.ToolError("binding self-test failed: corrupted trace (%s) was accepted" % kind)
    ctx.cov["binding_selftest"] = results


def run(tier, seed):
    ctx = vlib.Ctx("C02", tier, seed, LEVEL)
    ctx.assumptions = [
        "signing is deterministic (ed25519, RFC 6979 ECDSA) so API tokens can be compared byte-for-byte with the concretised spec token",
        "harness/src/layout.rs (independent implementation of the signed layouts) and the raw ed25519-dalek / p256 verification used for projection are trusted",
        "block payload bytes are taken from the real builders (opaque to the chain spec)",
    ]
    inv = ["Complete", "VersionMonotone", "RevIdsStable", "RevIdsUnique"]
    big = tier == "thorough"
    # design check: all honest histories
    c = cc.consts(MaxOps=5 if big else 4, MaxBlocks=4, MaxToks=2, RootAlgs="<- AlgsBoth", ExtAlgs="<- AlgsBoth",
                  FPayloads="<- FP" if not big else "<- FP3", Mutations="<- NoMutations")
    cc.design(ctx, "honest-design", c, inv, timeout=7200)
    # spec -> impl: every honest history (smaller alphabet) through the real API, byte equality
    c = cc.consts(MaxOps=4 if big else 3, MaxBlocks=4, MaxToks=2, RootAlgs="<- AlgsBoth", ExtAlgs="<- AlgsBoth",
                  FPayloads="<- FP", Mutations="<- NoMutations")
    e = cc.export(ctx, "honest-export", c, inv, ("HONEST",), timeout=7200)
    cc.replay_honest(ctx, e.exports["HONEST"])
    # blocks that declare public keys (a `trusting` scope): the key table of the token grows along the history
    c = cc.consts(PayloadVersion="<- PVKeys", MaxOps=4, MaxBlocks=4, MaxToks=1, RootAlgs="<- AlgsEd", ExtAlgs="<- AlgsEd", KeyAlgs="<- AlgsEd",
                  FPayloads="<- FPKeys", Mutations="<- NoMutations")
    e = cc.export(ctx, "honest-keys", c, inv, ("HONEST",), timeout=7200)
    cc.replay_honest(ctx, e.exports["HONEST"])
    # impl -> spec: recorded runs validated by TLC
    trace, events, ok = validate_chain_trace(ctx, 3000 if big else 400, "rec")
    if ok:
        selftest(ctx, trace, events[:400])
    return ctx.finish(
        rule="(1) TLC enumerates every honest history of build/append/append3p/seal within the bounds with both algorithms "
             "for root, block and external keys (invariants Complete, VersionMonotone, RevIdsStable, RevIdsUnique); "
             "(2) each exported history is executed through the real API on every mix of Biscuit / UnverifiedBiscuit paths "
             "and each produced token must be byte-identical to the concretised spec token, be admitted by all four entry points, "
             "re-serialise byte-exactly and expose the same block sources, root key id and block count (histories whose blocks declare public keys - payload P7 with a "
             "`trusting` scope - are compared as decoded tokens: their block bytes depend on the key table built so far); "
             "(3) seeded random runs of the real API (random contents, <= 8 ops) are projected to abstract tokens (signatures "
             "projected by raw verification against layout.rs messages) and validated by TLC against ChainTrace.tla. "
             "distinct_nontrivial = honest histories replayed + distinct (op, per-block version/algorithm/external, proof) shapes in traces.")


def replay(path, seed):
    return cc.replay_file("C02", path)
