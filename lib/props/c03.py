"""C03 - attenuation can only restrict."""
import vlib
from props import authcommon as ac

LEVEL = "model_checking"


def run(tier, seed):
    ctx = vlib.Ctx("C03", tier, seed, LEVEL)
    ctx.assumptions = [
        "premise of the property: neither the authorizer nor an earlier block names the appended block's external key (Untrusting in AuthMC.tla)",
        "limits not reached (100000 facts / 10000 iterations / 30 s)",
    ]
    big = tier == "thorough"
    # the focused universe (every owner x scope x key of the appended block, one- and two-pass derivations) ...
    r = ac.run_universe(ctx, "atten", ac.consts(Universe='"atten"', MaxBlocks=3, Exts="<- ExtsAll", ScopeMenu="<- Scopes4k",
                                                 AttenSize='"small"', SampleN=8 if not big else 2), timeout=14000)
    ac.replay(ctx, r.exports["PROG"])
    if big:
        # ... and, in the thorough tier, wider menus of E's rules (every scope, rules forging authority / authorizer facts), of the check bodies and of the policies (one-pass derivations)
        r = ac.run_universe(ctx, "atten-medium", ac.consts(Universe='"atten"', MaxBlocks=3, Exts="<- ExtsAll", ScopeMenu="<- Scopes4k",
                                                           AttenSize='"medium"', SampleN=64), timeout=14000)
        ac.replay(ctx, r.exports["PROG"])
    # unbounded part of the argument: TrustProof.tla (the scope -> trusted origins map, copied from Authorizer.tla; TLC
    # checks TrustDefsAgree on every state of the universes) with machine-checked proofs that appending a block whose key
    # nobody names changes no element's trusted origins and that the new block is in none of them (any number of blocks)
    ctx.cov["unbounded_proof"] = vlib.tlaps("TrustProof", ctx.work)
    vlib.log("[C03] tlapm TrustProof.tla: %s" % ctx.cov["unbounded_proof"])
    return ctx.finish(
        rule="One TLC state = (token of 1..2 blocks with one rule and one check in any owner, authorizer with a policy pair, appended block E "
             "with its own fact, optional rule (incl. rules forging authority/authorizer facts), optional check, any scope, first- or third-party). "
             "Invariant Monotone on the spec: Auth(T+E).ok => Auth(T).ok with the same policy, failed checks persist, and what every "
             "element of T and the authorizer sees is unchanged. Replay: both tokens are built and authorized on the real library, both results, "
             "worlds and queries are compared with the spec, and Monotone is asserted directly on the two real results. Unbounded: TrustProof.tla proves with TLAPS (71 obligations) that "
             "for any number of blocks and any scopes the trusted origins of every element of T are the same in T+E and never contain E's id; TLC checks that its definitions "
             "agree with Authorizer.tla on every state (TrustDefsAgree).")


def replay(path, seed):
    return ac.replay_file("C03", path)
