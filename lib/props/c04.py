"""C04 - authorization decisions follow the scoped-Datalog semantics."""
import vlib
from props import authcommon as ac

LEVEL = "model_checking"


def describe(case, row):
    # narrow the signature for check-kind problems: which kind, how many alternatives
    chk = []
    for b in case["prog"]["blocks"] + [case["prog"]["authz"]]:
        for c in b["checks"]:
            chk.append("%s/%d" % (c["kind"], len(c["queries"])))
    return ":" + ",".join(sorted(set(chk))) if chk else ""


def run(tier, seed):
    ctx = vlib.Ctx("C04", tier, seed, LEVEL)
    ctx.assumptions = [
        "error-free programs under non-binding limits (limits set to 100000 facts / 10000 iterations / 30 s)",
        "`trusting previous` inside the authorizer adds no block (modelled as the implementation does; the Biscuit specification leaves it unspecified)",
        "programs are rendered to Datalog source and parsed by the real parser; third-party blocks go through the request/response protocol",
    ]
    big = tier == "thorough"
    s = 1 if big else 24
    r = ac.run_universe(ctx, "checks", ac.consts(Universe='"checks"', SampleN=s), timeout=7200)
    ac.replay(ctx, r.exports["PROG"], describe=describe)
    ac.trace_authorize(ctx, r.exports["PROG"], 1500 if big else 250, "checks")
    r = ac.run_universe(ctx, "alts", ac.consts(Universe='"alts"', MaxBlocks=2, ScopeMenu="<- Scopes4", SampleN=1 if big else 2), timeout=7200)
    ac.replay(ctx, r.exports["PROG"], describe=describe)
    ac.trace_authorize(ctx, r.exports["PROG"], 1500 if big else 250, "alts")
    r = ac.run_universe(ctx, "policies", ac.consts(Universe='"policies"', MaxBlocks=2, Exts="<- ExtsOne",
                                                    ScopeMenu="<- Scopes4" if big else "<- Scopes3", SampleN=1 if big else 4), timeout=7200)
    ac.replay(ctx, r.exports["PROG"], describe=describe)
    ac.trace_authorize(ctx, r.exports["PROG"], 1500 if big else 250, "policies")
    # an authorizer without a token (build_unauthenticated): every scope word still has a meaning
    r = ac.run_universe(ctx, "noauth", ac.consts(Universe='"noauth"', MaxBlocks=1, Exts="<- ExtsOne", ScopeMenu="<- Scopes4"))
    ac.replay(ctx, r.exports["PROG"], describe=describe)
    return ctx.finish(
        rule="One TLC state = one (token, authorizer) program from scope-complete universes: `checks` (1..3 blocks, first/third-party "
             "with two external keys, one derivation rule and one check of each kind in every owner incl. the authorizer, every scope on block, "
             "rule and check), `alts` (checks with two alternatives, every kind), `policies` (ordered pairs of allow/deny policies with scopes). "
             "The spec computes the authorization result (matched policy, ordered failed checks), the final world with origins and three queries; "
             "each exported state is built with the real builders/keys and authorize(), the world (hook verif_facts), query() and query_all() are compared. "
             "Universe `noauth`: authorizers built without a token. Every replay also compares query, query_all and query_exactly_one (the single fact, or the number found). Implementation -> spec: for a sample of each universe the decision events of authorize() (hook H2: owner, index, trusted origins, result of every evaluated alternative) "
             "are validated by TLC against AuthorizerTrace.tla (evaluation order, short-circuit rules per kind, trusted origins, final result). distinct_nontrivial = number of distinct programs replayed.",
        exhaustive=big)


def replay(path, seed):
    return ac.replay_file("C04", path)
