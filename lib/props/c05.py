"""C05 - Datalog evaluation computes exactly the least fixpoint with exact provenance."""
import os

import vlib
from props import authcommon as ac

LEVEL = "model_checking"
INV = ["IsFixpoint", "ProvenanceOK", "TrustRespected", "UnboundHeadSilent", "Supported"]


def consts(**over):
    c = {"Vars": "<- VarsXYZ", "IntVal": "<- NoInts", "ConstPairs": "<- PairsTyped", "OriginMenu": "<- Origins3",
         "TrustMenu": "<- Trust4", "Owners": "<- Owners3", "Templates2": "<- T2None", "ExportOn": False, "SampleN": 1}
    c.update(over)
    return c


def run(tier, seed):
    ctx = vlib.Ctx("C05", tier, seed, LEVEL)
    ctx.assumptions = [
        "non-binding limits; ground terms are compared by type and value (typed atoms incl. look-alike pairs such as 1 / date 1 / \"1\")",
        "expressions are limited to the guard forms of Datalog.tla (==, !=, <, division) in this universe; the full expression semantics is C06",
    ]
    big = tier == "thorough"
    if big:
        u1 = consts(OriginMenu="<- Origins4", Templates2="<- T2Few")
        r = ac.run_universe(ctx, "typed-two-rules", dict(u1, SampleN=8), module="DatalogMC", invariants=INV, tag="DLOG", timeout=14000)
        ac.replay(ctx, r.exports["DLOG"], cmd="dlog-replay", sig_prefix="replay:dlog")
    else:
        # every typed constant pair x every single rule template / owner / trusted set
        r = ac.run_universe(ctx, "typed-one-rule", dict(consts(), SampleN=4), module="DatalogMC", invariants=INV, tag="DLOG", timeout=3000)
        ac.replay(ctx, r.exports["DLOG"], cmd="dlog-replay", sig_prefix="replay:dlog")
        # recursion: a second rule feeding the first
        r = ac.run_universe(ctx, "two-rules", dict(consts(ConstPairs="<- PairsFew", Templates2="<- T2Few"), SampleN=8), module="DatalogMC",
                            invariants=INV, tag="DLOG", timeout=3000)
        ac.replay(ctx, r.exports["DLOG"], cmd="dlog-replay", sig_prefix="replay:dlog")
    return ctx.finish(
        rule="One TLC state = one Datalog program: 3 candidate facts over two typed constants (19 pairs covering every term type, look-alike values and collections differing in one element or one nested element) "
             "with origin sets from a menu (or absent), a rule from 12 templates (join, repeated variable, body constant, recursion, transitive closure, "
             "empty body, guard, unbound head variable, ground) with any owner and trusted set, and optionally a second recursive rule. The spec computes "
             "the least fixpoint with provenance, checks it is a supported fixpoint respecting trust, and the per-pass level sizes. Replay: the program is "
             "loaded into a real datalog::World, run, and the set of (origin set, fact) must be identical; the per-pass sizes reported by the iteration hook "
             "and World::iterations must match the spec's levels; three shuffled insertion orders must give the same world.")


def replay(path, seed):
    return ac.replay_file("C05", path, cmd_default="dlog-replay")
