"""C06 - expression evaluation is total, overflow-checked and type-strict."""
import os

import vlib
from props import authcommon as ac

LEVEL = "model_checking"
INV = ["Total", "TypeStrict", "AcceptedOnlyFailArith", "Lazy"]


def describe(case, row):
    ops = case["ops"]
    last = ops[-1] if ops else {}
    name = last.get("op", last.get("o", "empty"))
    ts = "/".join(o["v"]["t"] for o in ops if o.get("o") == "val")[:30]
    return ":%s:%s" % (name, ts)


def run(tier, seed):
    ctx = vlib.Ctx("C06", tier, seed, LEVEL)
    ctx.assumptions = [
        "i64 values are anchored integers k*2^62+r; division and bitwise operators are only enumerated for small operands (plus x/0 and MIN/-1)",
        "string relations come from a generated table over {\"\", a, ab, b, re, ad, read} (spec/gen_exprstr.py -> spec/ExprStr.tla; read is one of the default symbols of every symbol table); regular expressions are literal patterns only",
        "errors are compared as a class (the property does not fix the variant); extern functions: a registry of five functions fixed by the spec (id, second, fail, sym, isint) plus unregistered names",
    ]
    total = 0
    for fam in ("binary", "unary", "stack", "closure", "compose", "extern"):
        c = {"StrFacts": "<- StrFactsC", "Family": '"%s"' % fam, "ExportOn": True}
        cfg = vlib.write_cfg(os.path.join(ctx.work, fam + ".cfg"), c, INV + ["Export"])
        res = ctx.tlc("ExprMC", cfg, name=fam, tags=("EXPR",), seed=seed)
        if res.violated:
            raise vlib.ToolError("ExprMC invariant %s violated in family %s" % (res.violated, fam))
        rows, stats = ac.replay(ctx, res.exports["EXPR"], cmd="expr-replay", sig_prefix="replay:expr", describe=describe)
        total += len(rows)
        # the same cases end to end: the expression inside a check of a token / of the authorizer
        ac.replay(ctx, res.exports["EXPR"], cmd="expr-e2e", sig_prefix="replay:expr-e2e", describe=describe)
    return ctx.finish(
        rule="Families: `binary` = 28 binary operators x 32^2 value pairs (10 integers incl. MIN, MAX, MAX-1, MIN+1, 2^62; strings; dates; bytes; bools; null; "
             "4 sets; 4 arrays incl. nested; 3 maps); `unary` = 4 x 32; `stack` = every operation sequence of length <= 3 over an 8-symbol alphabet "
             "(underflow, leftovers, misplaced closures); `closure` = lazy operators x erroring / non-boolean right sides, all/any over sets, arrays, maps "
             "and non-collections, wrong arity, nesting, shadowing of outer parameters and of rule variables, several closure-taking operators in one expression (a parameter name reused by a sibling after a quantifier that stopped early or not, read outside its closure); `compose` = a string computed by concatenation compared (4 equality operators, "
             "contains, get) with the same or another string written as a literal, held in an array / set / map key, bound by the rule, or computed too; `extern` = registered and "
             "unregistered extern functions with one and two arguments, a result that is a default symbol, results fed to other operators, closures as arguments, calls under lazy operators and quantifiers. TLC checks totality, type strictness "
             "(Accepts table), laziness; every state is evaluated by Expression::evaluate and value-or-error must equal the spec's; "
             "every state is also evaluated END TO END: the expression is put in a check of a token's authority block and of the authorizer (builders, symbol tables, wire format, "
             "rule engine): `E == v` must pass and `E != v` fail for the spec's value v, and a spec error must surface as an evaluation error of authorize(). %d cases." % total,
        exhaustive=True)


def replay(path, seed):
    return ac.replay_file("C06", path, cmd_default="expr-replay")
