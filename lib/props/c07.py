"""C07 - third-party blocks are bound to one signer and one position in one token."""
import os

import vlib
from props import authcommon as ac
from props import chaincommon as cc
from props import c12

LEVEL = "model_checking"


def describe(case, row):
    return ":%s:%s" % (case["sc"]["kind"], case["sc"]["target"])


def run(tier, seed):
    ctx = vlib.Ctx("C07", tier, seed, LEVEL)
    ctx.assumptions = [
        "ideal signatures (spec/Chain.tla); the verified API receives the response through hook ThirdPartyBlock::verif_from_bytes because the type has no public decoder",
        "trust (facts of a third-party block visible only to scopes naming its key) is decided on the AuthMC universes; table isolation on SymbolsTrace",
    ]
    big = tier == "thorough"
    # (1) protocol: every (response variant, target token and position, claimed key)
    c = {"PayloadVersion": "<- PV", "ExtAlgs": "<- AlgsBoth", "ExportOn": True}
    cfg = vlib.write_cfg(os.path.join(ctx.work, "tp.cfg"), c, ["BoundToPosition", "ResultVerifies", "Export"])
    res = ctx.tlc("TPMC", cfg, name="tp", tags=("TP",), seed=seed)
    if res.violated:
        raise vlib.ToolError("TPMC invariant %s violated" % res.violated)
    ac.replay(ctx, res.exports["TP"], cmd="tp-replay", sig_prefix="replay:tp", describe=describe)
    # (2) a token in which a third-party block was moved, re-attributed or altered fails verification
    inv = ["SoundModuloKnown"]
    cm = cc.consts(MaxOps=3, MaxBlocks=3, RootAlgs="<- AlgsEd", KeyAlgs="<- AlgsEd", ExtAlgs="<- AlgsBoth", FPayloads="<- FP1",
                   Mutations="<- ExtMutations", SampleN=1 if big else 2)
    cc.design(ctx, "ext-design", cm, inv)
    e = cc.export(ctx, "ext-export", cm, inv, ("FORGED",))
    cc.replay_forged(ctx, e.exports["FORGED"], weakness_relevant=lambda weak, row: False)
    # (3) trust: scopes naming the key, on the scope-complete universe (sample)
    r = ac.run_universe(ctx, "trust", ac.consts(Universe='"checks"', SampleN=96 if not big else 8), timeout=7200)
    ac.replay(ctx, r.exports["PROG"])
    # (4) table isolation on recorded runs
    c12.validate_symbols_trace(ctx, 3000 if big else 400)
    return ctx.finish(
        rule="(1) TPMC.tla: the honest response for token A and 10 adversarial variants (re-attributed, signed by another key, other payload, minted for another "
             "position, without PREVSIG, version-0 layout, 4 signature re-encodings) offered to 5 targets (same token, extended, after another third-party block, "
             "a twin with identical content, a token under another root) under 2 claimed keys, both external key algorithms; invariants BoundToPosition, ResultVerifies; "
             "each offer replayed on Biscuit::append_third_party_with_keypair and UnverifiedBiscuit::append_third_party_with_keypair (+verify), accepted results compared "
             "byte-for-byte with the spec token. (2) ChainMC adversary restricted to third-party mutations (external signature/key substitution, reorder, splice, forge) "
             "replayed on the admission paths. (3) AuthMC `checks` universe sample: visibility of third-party facts. (4) SymbolsTrace: tables untouched by third-party blocks.")


def replay(path, seed):
    return ac.replay_file("C07", path, cmd_default="tp-replay")
