"""C08 - sealed tokens are final."""
import vlib
from props import chaincommon as cc
from props import c02

LEVEL = "model_checking"


def run(tier, seed):
    ctx = vlib.Ctx("C08", tier, seed, LEVEL)
    ctx.assumptions = [
        "ideal signatures; harness/src/layout.rs trusted (see C01)",
        "authorisation equality of sealed and unsealed tokens is checked on the real code with four fixed authorizers per sealed token",
    ]
    big = tier == "thorough"
    inv = ["SoundModuloKnown", "SealedFinalModuloKnown", "Complete", "RevIdsStable"]
    # every adversary action against SEALED tokens only
    c = cc.consts(MaxOps=4, MaxBlocks=3, OnlySealedBase=True, FPayloads="<- FP1",
                  RootAlgs="<- AlgsBoth" if big else "<- AlgsEd", ExtAlgs="<- AlgsBoth" if big else "<- AlgsEd")
    cc.design(ctx, "sealed-design", c, inv, timeout=7200)
    c["SampleN"] = 16 if big else 8
    e = cc.export(ctx, "sealed-export", c, inv, ("FORGED", "HONEST"), timeout=7200)
    # re-encoding the seal signature does not add, remove or alter a block: not a C08 matter
    cc.replay_forged(ctx, e.exports["FORGED"], weakness_relevant=lambda weak, row: weak != "ecdsa-reencoding")
    # honest histories: every operation attempted on every sealed token must be refused, on both API
    # paths, before and after a serialization round trip; sealed == unsealed for blocks, ids, authorisation
    cc.replay_honest(ctx, e.exports["HONEST"])
    # recorded runs: refused operations are spec-refused, seal keeps revocation ids
    c02.validate_chain_trace(ctx, 2000 if big else 300, "rec")
    return ctx.finish(
        rule="TLC: all honest histories (<= 4 ops) containing seals x every adversary action applied to a sealed token "
             "(invariants SoundModuloKnown, SealedFinal: nothing accepted adds, removes or alters a block of a sealed token). "
             "Replay: every exported forged token (rejected ones sampled) through the four admission paths; every honest history through "
             "the real API on all Biscuit/UnverifiedBiscuit path mixes, where append, third-party append and seal on every sealed token "
             "must fail and the sealed token must keep revocation ids, printed blocks and authorisation results. "
             "Trace validation of random runs (refused events must be spec-refused).")


def replay(path, seed):
    return cc.replay_file("C08", path)
