"""C09 - untrusted bytes never crash or hang the library."""
import json
import os
import subprocess

import vlib
from props import authcommon as ac

LEVEL = "fault_enumeration"


def describe(case, row):
    p = row["problems"][0]
    c = case["c"]
    if "PANIC" in p or "HANG" in p:
        op = p.split(":")[0].split("(")[0]
        if c["fault"] == "eval":
            return ":panic:%s:eval:%s:%s:%s" % (op, c["op"], c["a"], c["b"])
        if c["fault"] == "source":
            import re
            return ":panic:%s:source:%s" % (op, re.sub(r"[0-9a-f]{8,}", "<hex>", c["src"])[:50])
        if c["fault"] == "eval_snippet":
            return ":panic:%s:eval:%s" % (op, c["src"][:40])
        return ":panic:%s:%s" % (op, c["fault"])
    if "refused before evaluation" in p:
        return ":not-refused:%s:%s" % (c["fault"], c["pos"])
    if "fault-free" in p:
        return ":control-not-served:%s" % c["pos"]
    return ":other:%s:%s" % (c["fault"], c["pos"])


def run(tier, seed):
    ctx = vlib.Ctx("C09", tier, seed, LEVEL)
    ctx.assumptions = [
        "the structured half (fault menu x position x accessor sweep) is model driven: Ingest.tla says at which stage each fault must surface; the byte-level half has only the no-crash / no-hang oracle (the model contributes the operation sweep)",
        "tokens carrying the faults are correctly signed with the independent layout implementation, so that the signature does not gate the path",
        "a hang is an operation taking more than 10 s; stack exhaustion is probed in child processes",
    ]
    big = tier == "thorough"
    c = {"ExportOn": True}
    cfg = vlib.write_cfg(os.path.join(ctx.work, "ingest.cfg"), c, ["Total", "RefusedEarly", "Export"])
    res = ctx.tlc("Ingest", cfg, name="ingest", tags=("INGEST",), seed=seed)
    if res.violated:
        raise vlib.ToolError("Ingest.tla invariant %s violated" % res.violated)
    ac.replay(ctx, res.exports["INGEST"], cmd="ingest-replay", sig_prefix="replay:ingest", describe=describe)
    # byte-level corruption of every kind of external input
    n = 400000 if big else 4000
    out = os.path.join(ctx.work, "fuzz.ndjson")
    p = vlib.vh("ingest-fuzz", str(n), out, check=False)
    if p.returncode != 0:
        ctx.finding("replay:ingest:fuzz-process-died", "the fuzz process died (rc %s): %s" % (p.returncode, p.stderr[-300:]), {"kind": "ingest-fuzz", "stderr": p.stderr[-2000:]})
    else:
        vlib.log("[C09] " + p.stdout.strip().splitlines()[-1])
        rows = vlib.read_ndjson(out)
        for r in rows:
            if not r["ok"]:
                first = r["problems"][0]
                ctx.finding("replay:ingest:fuzz:%s:%s" % (r["kind"], first.split(":")[0].split("(")[0]), first[:300], {"kind": "ingest-fuzz", "row": r})
        ctx.cov["evaluations"] += sum(r["ops"] for r in rows)
        ctx.cov["replayed"]["fuzz"] = {"inputs": len(rows), "crashes": sum(1 for r in rows if not r["ok"])}
    # recursion probes in child processes
    for what, depths in (("parens", (50, 400, 3000)), ("nested_array_source", (50, 400, 3000)), ("negations", (50, 400, 3000))):
        for d in depths:
            q = subprocess.run([vlib.VH, "ingest-child", what, str(d)], stdout=subprocess.PIPE, stderr=subprocess.PIPE, text=True, timeout=120)
            ok = q.returncode == 0 and q.stdout.strip().startswith("{")
            ctx.cov["replayed"].setdefault("probes", []).append({"probe": what, "depth": d, "rc": q.returncode})
            ctx.cov["evaluations"] += 1
            if not ok:
                ctx.finding("replay:ingest:probe:%s:abort" % what, "parsing Datalog source with %d nested levels killed the process (rc %s): %s" % (d, q.returncode, q.stderr.strip()[-120:]),
                            {"kind": "ingest-child", "probe": what, "depth": d})
                break
    return ctx.finish(
        rule="Fault enumeration: adversarial but well-formed contents (13 binary operators x 7 x 7 extreme integer operands, written in the expression or supplied by "
             "joined facts; 33 expression snippets: invalid / huge regexes, out-of-range get(), type errors inside closures, shadowed closure parameters, errors under lazy "
             "operators and try_or, unknown extern functions), 56 Datalog-source snippets through every parser entry point (invalid public keys, out-of-range integers and dates, "
             "odd-length hex, nested / duplicate collection members, unbound variables, truncated text) and 35 structural faults (unresolvable symbol / predicate / key / variable ids, malformed operation sequences and closures, unknown operator kinds, versions 0, 2, 7, "
             "2^32-1 and absent, redeclared symbols and keys, empty oneofs, ill-formed sets, empty / garbage payloads, deep nesting, 50k symbols) x 5 positions (authority, first-party "
             "block, third-party block of a correctly signed token; a token block and the authorizer block of an authorizer SNAPSHOT); on each, every public operation of Biscuit, UnverifiedBiscuit and Authorizer incl. all accessor "
             "indices 0..3 and usize::MAX, snapshot round trip, attenuation and sealing (about 75 operations). Oracle: no panic, no hang, faults the spec places before evaluation "
             "are refused by authorizer(). Plus seeded byte-level corruption of tokens, requests, third-party blocks, snapshots, policies, key strings, PEM and Datalog source, and "
             "recursion-depth probes in child processes. distinct_nontrivial = (fault, position) cases.")


def replay(path, seed):
    return ac.replay_file("C09", path, cmd_default="ingest-replay")
