"""C10 - evaluation budgets are enforced."""
import collections
import json
import os

import vlib

LEVEL = "model_checking"
INV = ["OkWithinBudget", "NeverOverIter", "ExhaustedIsFinal", "NoStuck"]


def trace_check(ctx, rows, cases):
    """impl -> spec: hook events of every replayed scenario are validated by TLC against Limits.tla
    (LimitsTrace.tla): every real pass must be a spec Pass (within the cumulative budget, never
    after exhaustion) and every return must be an enabled Return action."""
    trace = os.path.join(ctx.work, "limits-trace.ndjson")
    n = 0
    with open(trace, "w") as f:
        for r in rows:
            for e in r["events"]:
                f.write(json.dumps(e) + "\n")
                n += 1
    return trace, n


def run(tier, seed):
    ctx = vlib.Ctx("C10", tier, seed, LEVEL)
    ctx.assumptions = [
        "only the shape of a program matters for the fact and iteration budgets (level sizes per pass); shapes are realised by chain, wide-join and rule-free programs",
        "at the exact boundary (facts = max_facts, iterations = max_iterations) both success and a run-limit error are admitted",
        "wall-clock promptness is measured (best of 3, bound 20 x max_time + 250 ms); the spec only fixes where budget tests sit",
    ]
    big = tier == "thorough"
    c = {"TimeMenu": "<- Times", "LevelsMenu": "<- LevelsSmall", "FactLimits": "<- FactLims", "IterLimits": "<- IterLims",
         "CallSeqs": "<- Calls3", "ExportOn": True}
    if big:
        c.update({"LevelsMenu": "<- LevelsBig", "FactLimits": "<- FactLimsBig", "IterLimits": "<- IterLimsBig", "CallSeqs": "<- Calls5"})
    cfg = vlib.write_cfg(os.path.join(ctx.work, "limits.cfg"), c, INV + ["Export"])
    res = ctx.tlc("Limits", cfg, name="limits", tags=("LIM",), seed=seed)
    if res.violated:
        raise vlib.ToolError("Limits.tla invariant %s violated" % res.violated)
    # unbounded: the same state machine over integers (any shape, any limits, any number of calls) has an inductive
    # invariant that implies OkWithinBudget / NeverOverIter / ExhaustedIsFinal - discharged by Apalache
    steps = {"init_implies_inv": ("--cinit=ConstInit", "--init=Init", "--inv=IndInv", "--length=0"),
             "inv_is_inductive": ("--cinit=ConstInit", "--init=IndInit", "--inv=IndInv", "--length=1"),
             "inv_implies_safety": ("--cinit=ConstInit", "--init=IndInit", "--inv=Safety", "--length=0")}
    ind = {}
    for k, a in steps.items():
        ind[k] = vlib.apalache("LimitsInd", ctx.work, k, *a)
        if not ind[k]:
            raise vlib.ToolError("LimitsInd.tla: Apalache refutes step %s of the inductive argument" % k)
    ctx.cov["unbounded_inductive_invariant"] = dict(ind, module="LimitsInd.tla", tool="apalache-mc 0.58")
    vlib.log("[C10] Apalache: IndInv of LimitsInd.tla is inductive and implies the budget safety properties (unbounded)")
    # group terminal states by scenario -> admissible result sequences
    groups = collections.OrderedDict()
    for row in vlib.read_ndjson(res.exports["LIM"]):
        k = json.dumps(row["sc"], sort_keys=True)
        groups.setdefault(k, set()).add(tuple(row["results"]))
    path = os.path.join(ctx.work, "scenarios.ndjson")
    with open(path, "w") as f:
        for k, adm in groups.items():
            f.write(json.dumps({"sc": json.loads(k), "admissible": sorted(list(a) for a in adm)}) + "\n")
    out = path + ".verdict"
    p = vlib.vh("limits-replay", path, out)
    vlib.log("[C10] " + p.stdout.strip())
    rows = vlib.read_ndjson(out)
    cases = vlib.read_ndjson(path)
    stats = collections.Counter()
    for r in rows:
        sc = cases[r["idx"]]["sc"]
        if r.get("skipped"):
            stats["skipped-no-slow-variant"] += 1
            continue
        if r["ok"]:
            stats["agree"] += 1
            continue
        stats["disagree"] += 1
        levels, mf, mi = sc["levels"], sc["mf"], sc["mi"]
        P = len(levels) - 1
        first = r["problems"][0]
        # narrow signatures of the known deviations
        if "panic" in first and "overflow" in first:
            sig = "replay:limits:panic-budget-subtraction"
        elif P == 0 and levels[0] > mf and r["observed"][0] == "ok":
            sig = "replay:limits:facts-over-budget-without-growth"
        elif mi == 0 and P > 0 and "ok" in r["observed"]:
            sig = "replay:limits:max-iterations-zero"
        elif len(r["observed"]) > 1 and "limit" in r["observed"][:-1] and any(
                o == "ok" and c != "snapshot" for o, c in list(zip(r["observed"], sc["calls"]))[r["observed"].index("limit"):]):
            boundary = (mf in levels) or (mi == P and P > 0) or (mi in range(1, P + 1))
            sig = "replay:limits:retry-after-exhaustion-succeeds" + (":after-timeout" if sc["cost"] > 0 else (":at-boundary" if boundary else ""))
        else:
            sig = "replay:limits:" + ("budget-exceeded-on-success" if "Ok with" in first else "not-admitted")
        ctx.finding(sig, "levels %s max_facts %s max_iterations %s calls %s: %s" % (levels, mf, mi, sc["calls"], first[:200]),
                    {"kind": "limits-replay", "case": cases[r["idx"]], "row": {k: r[k] for k in ("problems", "observed", "detail")}})
    ctx.cov["evaluations"] += len(rows)
    ctx.cov["traces_validated_against_impl"] += len(rows)
    ctx.cov["distinct_nontrivial"] += len(rows)
    ctx.cov["replayed"]["scenarios"] = dict(stats)
    ctx.sample({"scenario": cases[0]["sc"], "admissible": cases[0]["admissible"], "observed": rows[0]["observed"]})
    # impl -> spec: the per-pass events of all scenarios, validated by TLC against LimitsTrace.tla.
    # The trace spec consumes every event; events that are not steps of Limits.tla are collected
    # as deviations (so one deviation does not hide the rest of the trace).
    trace, n = trace_check(ctx, rows, cases)
    events = vlib.read_ndjson(trace)
    ok, states, rej = vlib.trace_validate("LimitsTrace", "LimitsTrace.cfg", trace, ctx.work, name="limits-trace")
    ctx.cov["states"] += states
    if not ok:
        raise vlib.ToolError("LimitsTrace did not consume the whole trace: %s" % rej)
    import re
    text = open(os.path.join(ctx.work, "limits-trace.tlc.out"), errors="replace").read()
    m = re.search(r'<<\s*"DEVIATIONS",\s*"(\[[0-9,]*\])"\s*>>', text)
    if not m:
        raise vlib.ToolError("LimitsTrace reported no deviation list")
    devs = json.loads(m.group(1))
    for d in devs:
        ev = events[d - 1]
        start = max(i for i in range(d) if events[i]["ev"] == "scenario")
        end = next((i for i in range(d, len(events)) if events[i]["ev"] == "scenario"), len(events))
        scn = events[start]
        if ev["ev"] == "iter":
            reason = "pass-over-budget"
        elif ev["ev"] == "return" and ev.get("name") == "snapshot":
            reason = "snapshot-changes-budget-state"
        elif ev["ev"] == "return" and ev.get("outcome") == "ok":
            reason = "ok-after-exhaustion-or-over-budget"
        elif ev["ev"] == "return" and ev.get("outcome") == "limit":
            # either a run-limit error inside the budgets, or an iteration count that does not
            # match the passes actually performed
            passes = sum(1 for x in events[start:d - 1] if x["ev"] == "iter" and x["after"] > x["before"])
            reason = "iterations-misreported" if ev.get("iterations") != passes else "limit-inside-budget"
        else:
            reason = "other-outcome"
        ctx.finding("trace:LimitsTrace:%s:%s" % (ev["ev"], reason),
                    "scenario %s: event %s is not a step of Limits.tla" % (json.dumps({k: scn[k] for k in ("levels", "mf", "mi")}), json.dumps(ev)),
                    {"kind": "limits-trace", "scenario_events": events[start:end], "rejected": ev})
    ctx.cov["replayed"]["trace"] = {"events": n, "deviations": len(devs)}
    # wall clock
    tout = os.path.join(ctx.work, "time.json")
    p = vlib.vh("limits-time", tout)
    vlib.log("[C10] " + p.stdout.strip())
    for t in json.load(open(tout)):
        bound = 20 * t["max_time_ms"] + 250
        ctx.cov["replayed"].setdefault("time", []).append(dict(t, bound_ms=bound))
        if t["best_of_3_ms"] > bound:
            ctx.finding("replay:limits:time-not-prompt", "one pass over %d^3 bindings with max_time %d ms returned after %d ms (> %d ms)" % (
                t["items"], t["max_time_ms"], t["best_of_3_ms"], bound), {"kind": "limits-time", "row": t})
    return ctx.finish(
        rule="TLC explores the budget state machine (Limits.tla) over program shapes (level sizes per pass: rule-free, chains of 1..5 passes, one wide pass) x "
             "max_facts in {0,3,5,7,9,12,1000} x max_iterations in {0,1,2,3,5,1000} x call sequences (run/authorize/query/query_all and snapshot = save + continue on the restored authorizer, up to 4 calls), "
             "with invariants OkWithinBudget, ExhaustedIsFinal, NoStuck; the set of admissible outcome sequences of each scenario is exported. LimitsInd.tla restates the machine over "
             "integers for any shape / limits / number of calls; Apalache discharges its inductive invariant (Init => IndInv, IndInv /\\ Next => IndInv', IndInv => safety). "
             "Replay: each scenario is realised by a concrete program and executed call by call on a real authorizer; the outcome sequence must be admissible and "
             "iterations()/fact_count() must be within budget on success. The per-pass hook events of all scenarios are validated by TLC (LimitsTrace.tla). "
             "Wall-clock: a cubic join under a few ms of max_time must return within 20 x max_time + 250 ms.",
        exhaustive=True)


def replay(path, seed):
    from props import authcommon as ac
    return ac.replay_file("C10", path, cmd_default="limits-replay")
