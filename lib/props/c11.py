"""C11 - authorization is deterministic."""
import collections
import os

import vlib
from props import authcommon as ac

LEVEL = "model_checking"


def run(tier, seed):
    ctx = vlib.Ctx("C11", tier, seed, LEVEL)
    ctx.assumptions = [
        "the engine's visiting order is modelled as an arbitrary order over bindings (AltResults in Authorizer.tla); hash-seed variation is obtained by building fresh authorizers (every HashMap gets a new RandomState), cloning, and permuting fact insertion order",
        "an error is compared as a class (the universe has one error kind per program)",
    ]
    big = tier == "thorough"
    n = 256 if big else 48
    c = ac.consts(Universe='"guards"', MaxBlocks=1, Exts="<- ExtsOne", ScopeMenu="<- Scopes3", IntVal="<- SmallInts")
    # design check: the property as stated is refuted for the implemented rule (named deviation)
    cfg = vlib.write_cfg(os.path.join(ctx.work, "design.cfg"), c, ["DeterministicAll"])
    res = ctx.tlc("AuthMC", cfg, name="design")
    design_cex = res.violated == "DeterministicAll"
    # export all programs with their outcome sets
    c["ExportOn"] = True
    cfg = vlib.write_cfg(os.path.join(ctx.work, "export.cfg"), c, ["ExportOutcomes"])
    res = ctx.tlc("AuthMC", cfg, name="export", tags=("OUTC",), seed=seed)
    path = res.exports["OUTC"]
    out = path + ".verdict"
    p = vlib.vh("auth-outcomes", path, out, str(n))
    vlib.log("[C11] " + p.stdout.strip())
    rows = vlib.read_ndjson(out)
    cases = vlib.read_ndjson(path)
    stats = collections.Counter()
    for r in rows:
        case = cases[r["idx"]]
        if not r["ok"]:
            kind = "outside-spec" if any("OUTSIDE-SPEC" in x for x in r["problems"]) else ac.classify(r["problems"][0])
            ctx.finding("replay:auth-outcomes:" + kind, "; ".join(r["problems"][:2])[:400], {"kind": "auth-outcomes", "case": case, "row": r})
            stats["disagree"] += 1
        if r["nondeterministic"]:
            stats["nondeterministic"] += 1
            obs = set(r["observed"])
            errs = obs - {"result"}
            # the property itself: more than one outcome for the same input
            if len(r["allowed"]) > 1 and obs <= set(r["allowed"]):
                if "result" in obs and errs:
                    sig = "design:first-binding-decides"
                elif len(errs) > 1:
                    sig = "design:which-error-depends-on-visiting-order"
                else:
                    sig = "replay:auth-outcomes:nondeterministic-unexplained"
            else:
                sig = "replay:auth-outcomes:nondeterministic-unexplained"
            ctx.finding(sig, "observed %s (iteration counts %s) over %d builds" % (sorted(r["detail"])[:2], r.get("iterations"), n), {"kind": "auth-outcomes", "case": case, "row": r})
        else:
            stats["deterministic"] += 1
        if len(r["allowed"]) > 1:
            stats["spec-two-outcomes"] += 1
    ctx.cov["evaluations"] += len(rows) * n * 2
    ctx.cov["traces_validated_against_impl"] += len(rows)
    ctx.cov["distinct_nontrivial"] += len(rows)
    ctx.cov["replayed"]["guards"] = dict(stats)
    ctx.cov["design_counterexample_found"] = design_cex
    ctx.sample({"program": cases[0]["prog"], "spec_outcomes": cases[0]["outcomes"], "observed": rows[0]["observed"]})
    # the number of passes is a function of the program: derivation chains across trust groups under tight iteration budgets
    c3 = ac.consts(Universe='"passes"', MaxBlocks=3, Exts="<- ExtsOne", ScopeMenu="<- Scopes3", ExportOn=True)
    cfg = vlib.write_cfg(os.path.join(ctx.work, "passes.cfg"), c3, ["PassesDecide", "ExportPasses"])
    res = ctx.tlc("AuthMC", cfg, name="passes", tags=("OUTC",), seed=seed)
    if res.violated:
        raise vlib.ToolError("AuthMC invariant %s violated in universe passes" % res.violated)
    path3 = res.exports["OUTC"]
    out3 = path3 + ".verdict"
    p = vlib.vh("auth-outcomes", path3, out3, str(n))
    vlib.log("[C11] passes: " + p.stdout.strip())
    rows3 = vlib.read_ndjson(out3)
    cases3 = vlib.read_ndjson(path3)
    st3 = collections.Counter()
    for r in rows3:
        case = cases3[r["idx"]]
        if not r["ok"]:
            kind = "passes:outside-spec" if any("OUTSIDE-SPEC" in x for x in r["problems"]) else "passes:" + ac.classify(r["problems"][0])
            ctx.finding("replay:auth-outcomes:" + kind, "max_iterations %s, spec passes %s: %s" % (case["max_iter"], case["passes"], "; ".join(r["problems"][:2])[:300]),
                        {"kind": "auth-outcomes", "case": case, "row": r})
            st3["disagree"] += 1
        # determinism: the iteration count of a successful run, and success itself, never vary between builds
        if len(r["iterations"]) > 1 or len(r["observed"]) > 1 or len(r["detail"]) > 1:
            ctx.finding("replay:auth-outcomes:passes:nondeterministic", "max_iterations %s (spec passes %s): observed %s, iteration counts %s over %d builds" % (case["max_iter"], case["passes"], sorted(r["observed"]), r["iterations"], n),
                        {"kind": "auth-outcomes", "case": case, "row": r})
            st3["nondeterministic"] += 1
        else:
            st3["deterministic"] += 1
    ctx.cov["evaluations"] += len(rows3) * n * 2
    ctx.cov["distinct_nontrivial"] += len(rows3)
    ctx.cov["replayed"]["passes"] = dict(st3)
    # error-free universes must be deterministic too: re-use the alts universe with several builds
    c2 = ac.consts(Universe='"alts"', MaxBlocks=2, ScopeMenu="<- Scopes3", SampleN=8 if not big else 1)
    r = ac.run_universe(ctx, "alts", c2)
    ac.replay(ctx, r.exports["PROG"])
    return ctx.finish(
        rule="Universe `guards`: authority facts x(0), x(1), x(5) (every non-empty subset), a check of each kind in the authority block or the authorizer "
             "whose guard errors / is false / is true on different bindings (10/$x, $x < 3, $x != 0), optionally a second alternative, a policy with a guard, "
             "a rule with an erroring guard. The spec computes the SET of outcomes over all visiting orders (AuthOutcomes); TLC checks Deterministic. "
             "Replay: %d fresh builds + clones + permuted insertion orders per program; the observed outcome set must be inside the spec's set and a singleton; "
             "error-free results are compared with the spec's result. Universe `passes`: a derivation chain of 2..3 rules placed in every combination of blocks / authorizer (different "
             "trust groups of the rule store) under max_iterations = Passes-1, Passes, Passes+5: outcome, iteration count and their invariance over the builds." % n,
        exhaustive=True)


def replay(path, seed):
    return ac.replay_file("C11", path, cmd_default="auth-outcomes")
