"""C12 - a token means the same in memory and after a round trip, on every API path."""
import json
import os
import re

import vlib

LEVEL = "model_checking"
INV = ["MemEqualsReload", "ResolveInMemory", "ResolveReloaded", "AlwaysWellFormed"]


def validate_symbols_trace(ctx, nruns, name="rec"):
    trace = os.path.join(ctx.work, name + ".ndjson")
    p = vlib.vh("sym-record", str(nruns), trace)
    vlib.log("[%s] %s" % (ctx.prop, p.stdout.strip()))
    events = vlib.read_ndjson(trace)
    direct = vlib.read_ndjson(trace + ".direct")
    ok, states, rej = vlib.trace_validate("SymbolsTrace", "SymbolsTrace.cfg", trace, ctx.work, name=name)
    ctx.cov["states"] += states
    ctx.cov["transitions"] += states
    if not ok:
        raise vlib.ToolError("SymbolsTrace did not consume the whole trace: %s" % rej)
    text = open(os.path.join(ctx.work, name + ".tlc.out"), errors="replace").read()
    m = re.search(r'<<\s*"DEVIATIONS",\s*"(\[[0-9,]*\])"\s*>>', text)
    if not m:
        raise vlib.ToolError("SymbolsTrace reported no deviation list")
    devs = json.loads(m.group(1))
    # run number of each event
    run_of = {}
    cur = None
    for i, e in enumerate(events):
        if e["ev"] == "reset":
            cur = e["run"]
        run_of[i + 1] = cur
    for d in devs:
        e = events[d - 1]
        if e["ev"] == "redeclared":
            sig = "trace:SymbolsTrace:redeclared-accepted"
        else:
            mem_vs_rl = e["st"]["syms"] != e["rl"]["syms"] or e["st"]["keys"] != e["rl"]["keys"]
            what = "tables-memory-vs-reload" if mem_vs_rl else ("direct" if not e["direct_ok"] else "tables-vs-spec")
            sig = "trace:SymbolsTrace:%s:%s:%s" % (e["ev"], "unverified" if e["api"] == "u" else "verified", what)
        ctx.finding(sig, "run %s event %d: %s" % (run_of[d], d, json.dumps({k: e.get(k) for k in ("content", "st", "rl")})[:300]),
                    {"kind": "sym-trace", "event": e, "run": run_of[d]})
    # direct observations of the property (in-memory vs reloaded, verified vs unverified)
    for dp in direct:
        p = dp["problem"]
        if "failed:" in p:
            sig = "replay:sym:operation-refused:" + p.split(" failed")[0] + ":" + re.sub(r"[^A-Za-z]", "", p.split("failed: ")[1])[:40]
        elif "does not reload" in p:
            sig = "replay:sym:token-does-not-reload"
        elif "Biscuit and UnverifiedBiscuit" in p:
            sig = "replay:sym:sources-verified-vs-unverified"
        elif "block sources differ" in p:
            sig = "replay:sym:sources-memory-vs-reload"
        elif "authorization differs" in p:
            sig = "replay:sym:authorization-memory-vs-reload"
        else:
            sig = "replay:sym:" + p[:40].replace(" ", "-")
        ctx.finding(sig, "run %s step %s: %s" % (dp["run"], dp["step"], p[:300]), {"kind": "sym-direct", "problem": dp})
    ctx.cov["evaluations"] += len(events)
    ctx.cov["traces_validated_against_impl"] += nruns
    shapes = set()
    for e in events:
        if "st" in e:
            shapes.add((e["ev"], e["api"], tuple(e["content"]["strs"]), e["content"]["ckey"], e["content"]["bkey"], len(e["st"]["blocks"])))
    ctx.cov["distinct_nontrivial"] += len(shapes)
    ctx.cov["replayed"]["trace:" + name] = {"runs": nruns, "events": len(events), "deviations": len(devs), "direct_problems": len(direct)}
    if len(events) > 1:
        ctx.sample({"trace_event": events[1]})
    return events, devs


def run(tier, seed):
    ctx = vlib.Ctx("C12", tier, seed, LEVEL)
    ctx.assumptions = [
        "block contents are facts over a menu of strings (default symbols, shared and new strings), a check scope and a block scope over two keys; interning order follows the builders (facts, checks, block scopes)",
        "in-memory tables are read through hook verif_tables; the reloaded token is obtained from to_vec() through Biscuit::from and UnverifiedBiscuit::from",
    ]
    big = tier == "thorough"
    c = {"Defaults": "<- DefaultsUsed", "Contents": "<- ContentMenu", "MaxOps": 5 if big else 4}
    cfg = vlib.write_cfg(os.path.join(ctx.work, "design.cfg"), c, INV)
    res = ctx.tlc("SymbolsMC", cfg, name="design", timeout=7200)
    if res.violated:
        raise vlib.ToolError("SymbolsMC invariant %s violated" % res.violated)
    validate_symbols_trace(ctx, 6000 if big else 800)
    return ctx.finish(
        rule="Design: TLC explores every sequence of <= 4/5 build/append/third-party append/seal operations over 6 block contents that share, shadow and collide on "
             "strings, default symbols and keys; invariants: in-memory tables = tables rebuilt by a reload, every stored reference resolves to what was authored. "
             "Conformance: seeded random runs of the real API (<= 5 operations, verified/unverified paths mixed, both algorithms for scope keys, third-party blocks "
             "declaring keys the token also declares) log the tables of the in-memory and of the reloaded token after every operation; TLC validates every event "
             "against Symbols.tla (deviations collected, rest of the run skipped). Directly asserted: same block sources and authorization results in memory, after "
             "reload, and between Biscuit and UnverifiedBiscuit; a token whose authority redeclares a default symbol is refused.")


def replay(path, seed):
    print("C12 replay files hold the rejected trace event; re-run bin/check C12 with the same VERIF_SEED")
    return 0
