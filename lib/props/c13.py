"""C13 - authorizer snapshots and saved policies restore the same authorizer."""
import vlib
from props import authcommon as ac

LEVEL = "model_checking"


def classify13(case, row):
    p = row["problems"][0]
    tp = any(b["ext"] != "none" for b in case["prog"]["blocks"])
    where = p.split(":")[0]
    if where == "policies" and "UnknownExternalKey" in p:
        return ":policies:key-scope-not-loadable"
    if "restore failed" in p:
        kind = "restore-failed"
    elif "state changed" in p:
        kind = "state-changed:" + p.split("state changed: ")[1].split(":")[0]
    elif "behaves differently" in p:
        kind = "behaviour"
    elif "deviates from the spec" in p:
        kind = "spec"
    else:
        kind = "other"
    return ":%s:%s:%s" % (where.split("/")[0], kind, "third-party" if tp else "first-party")


def run(tier, seed):
    ctx = vlib.Ctx("C13", tier, seed, LEVEL)
    ctx.assumptions = [
        "the abstract state of an authorizer is the projection of hook verif_state (facts per origin, rules with owner and trusted origins, checks, policies, key -> block map, limits, iterations, ran?)",
        "execution time is not part of the compared state",
    ]
    big = tier == "thorough"
    r = ac.run_universe(ctx, "checks", ac.consts(Universe='"checks"', SampleN=64 if not big else 8), timeout=7200)
    import props.authcommon as _ac
    rows, stats = ac.replay(ctx, r.exports["PROG"], cmd="snap-replay", sig_prefix="replay:snap", describe=classify13)
    r = ac.run_universe(ctx, "policies", ac.consts(Universe='"policies"', MaxBlocks=2, Exts="<- ExtsOne", ScopeMenu="<- Scopes3", SampleN=16 if not big else 2), timeout=7200)
    ac.replay(ctx, r.exports["PROG"], cmd="snap-replay", sig_prefix="replay:snap", describe=classify13)
    return ctx.finish(
        rule="Programs of the AuthMC `checks` universe (1..3 blocks, third-party blocks with their own symbols and keys, block/rule/check scopes naming keys of earlier AND later blocks, "
             "authorizer rules/checks with scopes) and of the `policies` universe. For each: snapshot at {fresh, after authorize, after a failed run under tiny limits} x {raw, base64}, restore, "
             "and require (1) identical abstract state (hook), (2) identical re-snapshot, (3) identical authorize/query/query_all results, and (4) for the error-free phases the results the SPEC "
             "computes for the program; plus AuthorizerBuilder snapshot round trip and AuthorizerPolicies save/serialize/deserialize. distinct_nontrivial = programs replayed.")


def replay(path, seed):
    return ac.replay_file("C13", path, cmd_default="snap-replay")
