"""C14 - printed Datalog parses back to the same program."""
import os

import vlib
from props import authcommon as ac

LEVEL = "model_checking"


def describe(case, row):
    p = row["problems"][0]
    if "s" in case:
        chars = sorted(set(c for c in case["s"] if c in ("QUOTE", "BACKSLASH", "NEWLINE")))
        return ":string:%s:%s" % ("+".join(chars) or "plain", "printer" if "printer writes" in p else "reparse")
    if "item" in case:
        it = case["item"]
        keys = "+".join(sorted(set(x for x in it["sc"] + it["sc2"] if x.startswith("K")))) or "nokey"
        where = "builder" if p.startswith("builder") else "token" if p.startswith("block") or p.startswith("token") else "authorizer"
        return ":item:%s:%s:%s:%s" % (it["kind"], it["sub"], keys, where)
    root = case["ast"]
    return ":expr:%s:%s" % (root["op"], "printer" if "printer writes" in p else "reparse")


def run(tier, seed):
    ctx = vlib.Ctx("C14", tier, seed, LEVEL)
    ctx.assumptions = [
        "string alphabet {a, \", \\, n, newline, space, ; ( ) ,}; lengths <= 4 (quick: <= 3)",
        "expression derivations: a root operator over operands that are atoms, one-operator subexpressions or those in parentheses (depth <= 3); strict &&! / ||! are not part of the grammar (reported separately in DESIGN.md)",
        "printed text is compared with the spec's text modulo whitespace; structure is compared exactly",
    ]
    big = tier == "thorough"
    base = {"Part": '"strings"', "MaxLen": 5 if big else 3, "ExportOn": True, "SampleN": 1}
    cfg = vlib.write_cfg(os.path.join(ctx.work, "strings.cfg"), base, ["StringRoundTrip", "ExportStr"])
    res = ctx.tlc("Syntax", cfg, name="strings", tags=("STR",), seed=seed)
    if res.violated:
        raise vlib.ToolError("Syntax.tla invariant %s violated" % res.violated)
    ac.replay(ctx, res.exports["STR"], cmd="syntax-replay", sig_prefix="replay:syntax", describe=describe)
    # expressions: unique readability (state count with VIEW on the text = without), then replay
    e0 = dict(base, Part='"exprs"', MaxLen=0, ExportOn=False)
    r1 = ctx.tlc("Syntax", vlib.write_cfg(os.path.join(ctx.work, "exprs-count.cfg"), e0), name="exprs-count")
    r2 = ctx.tlc("Syntax", vlib.write_cfg(os.path.join(ctx.work, "exprs-view.cfg"), e0, view="TextView"), name="exprs-view")
    ctx.cov["unique_readability"] = {"derivations": r1.distinct, "distinct_texts": r2.distinct}
    if r1.distinct != r2.distinct:
        raise vlib.ToolError("Syntax.tla: two derivations print the same text (%d derivations, %d texts)" % (r1.distinct, r2.distinct))
    e1 = dict(e0, ExportOn=True, SampleN=1 if big else 6)
    res = ctx.tlc("Syntax", vlib.write_cfg(os.path.join(ctx.work, "exprs.cfg"), e1, ["ExportExpr"]), name="exprs", tags=("EXPR",), seed=seed)
    ac.replay(ctx, res.exports["EXPR"], cmd="syntax-replay", sig_prefix="replay:syntax", describe=describe)
    # items: facts, rules, checks, policies x term types x scopes (both key algorithms) through the three printers
    i0 = dict(base, Part='"items"', MaxLen=0, ExportOn=False)
    r1 = ctx.tlc("Syntax", vlib.write_cfg(os.path.join(ctx.work, "items-count.cfg"), i0), name="items-count")
    r2 = ctx.tlc("Syntax", vlib.write_cfg(os.path.join(ctx.work, "items-view.cfg"), i0, view="ItemView"), name="items-view")
    ctx.cov["unique_readability_items"] = {"items": r1.distinct, "distinct_texts": r2.distinct}
    if r1.distinct != r2.distinct:
        raise vlib.ToolError("Syntax.tla: two items print the same text (%d items, %d texts)" % (r1.distinct, r2.distinct))
    res = ctx.tlc("Syntax", vlib.write_cfg(os.path.join(ctx.work, "items.cfg"), dict(i0, ExportOn=True), ["ExportItem"]), name="items", tags=("ITEM",), seed=seed)
    ac.replay(ctx, res.exports["ITEM"], cmd="syntax-replay", sig_prefix="replay:syntax", describe=describe)
    return ctx.finish(
        rule="Strings: every string of length <= 3/4 over a 10-symbol hostile alphabet; spec invariant Lex(PrintStr(s)) = s (one literal, whole text); replay: builder printer and "
             "token (symbol table) printer must write the grammar's literal, the printed fact must parse back to the same single fact and rebuild the same block bytes. "
             "Expressions: 67k derivations of the precedence grammar (17 infix operators, 7 binary and 2 unary methods, all/any closures, prefix !, parentheses); unique readability "
             "checked by TLC (VIEW on the printed text); replay: AST -> builder ops -> Display must equal the spec's text, and parsing it back must give the same ops. "
             "Items: 1290 facts, rules, checks (check if / check all / reject if, one or two alternatives) and policies over 10 term types x 8 `trusting` annotations (authority, previous, "
             "ed25519 and secp256r1 keys, combinations); unique readability by TLC; replay: the item built through the builder API is printed by the builder Display, by the token's block "
             "source (authority and appended block, after a serialization round trip, through the unverified reader) and by the authorizer's dump / world listing; each text must be "
             "the spec's text and parse back to the same item.")


def replay(path, seed):
    return ac.replay_file("C14", path, cmd_default="syntax-replay")
