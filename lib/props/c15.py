"""C15 - revocation identifiers are stable, unique and not malleable."""
import json
import os

import vlib
from props import chaincommon as cc
from props import c02

LEVEL = "model_checking"


def run(tier, seed):
    ctx = vlib.Ctx("C15", tier, seed, LEVEL)
    ctx.assumptions = [
        "ideal signatures with an explicit second encoding (form bit) for ECDSA; ed25519 non-canonical S must be refused",
        "uniqueness relies on fresh next keys: checked in the spec (RevIdsUnique) and by minting identical tokens on the real code",
    ]
    big = tier == "thorough"
    inv = ["RevIdsStable", "RevIdsUnique", "NonMalleableModuloKnown", "SoundModuloKnown"]
    muts = "<- IdMutations"
    c = cc.consts(MaxOps=4 if big else 3, MaxBlocks=3, RootAlgs="<- AlgsBoth", ExtAlgs="<- AlgsBoth",
                  FPayloads="<- FP1", Mutations=muts)
    cc.design(ctx, "ids-design", c, inv, timeout=7200)
    c["SampleN"] = 64 if big else 4
    e = cc.export(ctx, "ids-export", c, inv, ("FORGED",), timeout=7200)
    # only re-encodings that change a revocation identifier concern C15 (not the seal signature)
    rows, stats = cc.replay_forged(ctx, e.exports["FORGED"],
                                   weakness_relevant=lambda weak, row: weak == "ecdsa-reencoding" and row["mut"]["kind"] == "Malleate")
    # stability along recorded runs (append keeps a prefix, seal/reload keep all ids)
    c02.validate_chain_trace(ctx, 2000 if big else 300, "rec")
    # uniqueness on the real code
    out = os.path.join(ctx.work, "unique.json")
    p = vlib.vh("chain-unique", "2000" if big else "300", out)
    vlib.log("[C15] " + p.stdout.strip())
    u = json.load(open(out))
    ctx.cov["evaluations"] += u["ids"]
    ctx.cov["replayed"]["unique"] = u
    if u["duplicates"]:
        ctx.finding("replay:chain-unique:duplicate", "%d duplicate revocation ids among %d" % (u["duplicates"], u["ids"]), {"kind": "chain-unique"})
    return ctx.finish(
        rule="TLC: all honest histories (<= 4 ops, both algorithms everywhere) with invariants RevIdsStable (prefix-preservation "
             "under append/append3p/seal), RevIdsUnique, and NonMalleable over the adversary actions that keep a token's blocks "
             "(signature re-encoding of every block/external/seal signature, signature substitution, identity, proof swap). "
             "Replay of every exported token: accepted tokens must present exactly the signature bytes as revocation identifiers. "
             "Trace validation: recorded API runs, ids compared at every step. Uniqueness: identical tokens minted with OS randomness.")


def replay(path, seed):
    return cc.replay_file("C15", path)
