"""C16 - blocks declare the language version they need; under-declared blocks are refused."""
import os

import vlib
from props import authcommon as ac
from props import chaincommon as cc

LEVEL = "model_checking"


def describe(case, row):
    p = row["problems"][0]
    feats = ",".join(sorted(case["fs"]))
    what = "declared" if "builders declare" in p else ("sigver" if "signature version" in p else ("loads" if "declared as version" in p else ("accessors" if "accessors disagree" in p else "other")))
    return ":%s:%s:tp=%s" % (what, feats, case["tp"])


def run(tier, seed):
    ctx = vlib.Ctx("C16", tier, seed, LEVEL)
    ctx.assumptions = [
        "one Datalog snippet per feature (harness/src/ver.rs); re-declared blocks are re-signed with the independent layout implementation so that only the version gate can refuse them",
        "the signature-version rule over key-algorithm sequences is the VersionMonotone / SigVersion part of Chain.tla (checked here on honest histories)",
    ]
    big = tier == "thorough"
    c = {"MaxFeatures": 2, "ExportOn": True}
    cfg = vlib.write_cfg(os.path.join(ctx.work, "version.cfg"), c, ["DeclaredIsMinimal", "Monotone", "Export"])
    res = ctx.tlc("Version", cfg, name="version", tags=("VER",), seed=seed)
    if res.violated:
        raise vlib.ToolError("Version.tla invariant %s violated" % res.violated)
    path = res.exports["VER"]
    if not big:
        # quick: every single feature x tp x d, and a seeded third of the pairs
        import json, random
        rnd = random.Random(seed)
        rows = vlib.read_ndjson(path)
        keep = [r for r in rows if len(r["fs"]) == 1 or rnd.random() < 0.3]
        with open(path, "w") as f:
            for r in keep:
                f.write(json.dumps(r) + "\n")
    ac.replay(ctx, path, cmd="ver-replay", sig_prefix="replay:ver", describe=describe)
    # key-algorithm sequences: signature version rule on honest histories (spec + byte-equal API replay)
    inv = ["Complete", "VersionMonotone"]
    cm = cc.consts(MaxOps=4 if big else 3, MaxBlocks=4, MaxToks=1, RootAlgs="<- AlgsBoth", ExtAlgs="<- AlgsBoth", FPayloads="<- FP", Mutations="<- NoMutations")
    e = cc.export(ctx, "sigver-export", cm, inv, ("HONEST",))
    cc.replay_honest(ctx, e.exports["HONEST"])
    return ctx.finish(
        rule="Version.tla: 35 features (7 of 3.0, 8 of 3.1, 20 of 3.3 incl. null/array/map in facts, rule heads, bodies, expressions and nested) - every feature and every pair, "
             "x third-party flag x declared version 0..8; invariants DeclaredIsMinimal, Monotone. Replay: the block is built with the real builders (declared version and "
             "signature version compared), then re-declared as version d, re-signed correctly and offered to Biscuit::from + authorizer(): accepted iff the spec's Loads. "
             "Signature-version rule over key-algorithm sequences: honest histories of ChainMC (both algorithms for root, block and external keys, 3.0 and 3.3 payloads) "
             "replayed byte-for-byte through the API.",
        exhaustive=big)


def replay(path, seed):
    return ac.replay_file("C16", path, cmd_default="ver-replay")
