"""C17 - key and signature encodings round-trip and reject malformed material."""
import os

import vlib
from props import authcommon as ac

LEVEL = "fault_enumeration"


def describe(case, row):
    if "c" in case:
        c = case["c"]
        return ":%s:%s:%s:as=%s:%s:want=%s" % (c["enc"], c["kind"], c["alg"], c["as"], c["cor"], case["expect"])
    s = case["s"]
    return ":sig:%s:key=%s:msg=%s:sig=%s" % (s["alg"], s["key"], s["msg"], s["sig"])


def run(tier, seed):
    ctx = vlib.Ctx("C17", tier, seed, LEVEL)
    ctx.assumptions = [
        "the fidelity of the hex/base64/DER codecs and the strength of the primitives are outside what a state-machine model decides: the TLA+ module is a decision table (oracle + enumeration), the deciding work is the replay",
        "raw 32-byte private keys carry no algorithm: decoding them under the other algorithm is FailOrDifferent, not MustFail",
        "signatures are exercised through the library's own verification path (authority block signature of a one-block token)",
    ]
    big = tier == "thorough"
    c = {"ExportOn": True}
    cfg = vlib.write_cfg(os.path.join(ctx.work, "keys.cfg"), c, ["Sane", "OnlyIntactRoundTrips", "Export", "ExportSigs"])
    res = ctx.tlc("KeyCodec", cfg, name="keys", tags=("KEY", "SIG"), seed=seed)
    if res.violated:
        raise vlib.ToolError("KeyCodec.tla invariant %s violated" % res.violated)
    n = "64" if big else "8"
    for tag in ("KEY", "SIG"):
        path = res.exports[tag]
        out = path + ".verdict"
        p = vlib.vh("keys-replay", path, out, n)
        vlib.log("[C17] " + p.stdout.strip())
        rows = vlib.read_ndjson(out)
        cases = vlib.read_ndjson(path)
        for r in rows:
            if not r["ok"]:
                case = cases[r["idx"]]
                ctx.finding("replay:keys" + describe(case, r), "; ".join(r["problems"][:2])[:300], {"kind": "keys-replay", "case": case, "row": r})
        ctx.cov["evaluations"] += len(rows) * int(n)
        ctx.cov["distinct_nontrivial"] += len(rows)
        ctx.cov["replayed"][tag] = {"cells": len(rows), "keys_per_cell": int(n), "disagree": sum(1 for r in rows if not r["ok"])}
        ctx.sample(cases[0])
    return ctx.finish(
        rule="KeyCodec.tla decision table: encoding {raw, hex, algorithm-prefixed string, DER, PEM, protobuf} x {private, public} x {ed25519, secp256r1} x decoder told {same, other, "
             "auto-detect} x corruption {none, truncate, extend, empty, flip first / last unit of the key material, wrong algorithm prefix} -> RoundTrips | MustFail | FailOrDifferent; "
             "ideal signature table: {same, other key, other algorithm} x {same, altered, empty message} x 7 signature transformations. Each cell replayed with 8/64 seeded keys; "
             "a panic, an accepted corrupted key equal to the original, a refused intact key or a verifying wrong signature is a violation. distinct_nontrivial = cells.",
        exhaustive=True)


def replay(path, seed):
    import json
    d = json.load(open(path))
    tmp = os.path.join(vlib.WORK, "replay-C17.ndjson")
    os.makedirs(vlib.WORK, exist_ok=True)
    with open(tmp, "w") as f:
        f.write(json.dumps(d["replay"]["case"]) + "\n")
    p = vlib.vh("keys-replay", tmp, tmp + ".verdict", "8", check=False)
    print(p.stdout)
    rows = vlib.read_ndjson(tmp + ".verdict")
    print(rows)
    if any(not r["ok"] for r in rows):
        print("VIOLATION property=C17 replay=%s" % path)
        return 1
    return 0
