"""C19 - the C API mirrors the Rust API and never aborts."""
import os
import re

import vlib
from props import authcommon as ac

LEVEL = "model_checking"


def describe(case, row):
    p = row["problems"][0]
    m = re.search(r"call (\w+)\((\w+),(\d+)\)", p)
    call = "%s:%s:%s" % (m.group(1), m.group(2), m.group(3)) if m else "setup"
    if "ABORTED" in p:
        kind = "abort"
    elif "error channel" in p:
        kind = "error-channel"
    elif "returned" in p:
        kind = "outcome"
    else:
        kind = "mismatch"
    alg = case["alg"] if ("key" in call or "serialize" in call and kind in ("abort", "mismatch")) else "any"
    if "serialize" in call and kind in ("abort", "mismatch") and case.get("balg", "ed") != "ed":
        alg += "+block:" + case["balg"]
    return ":%s:%s:%s" % (kind, call, alg)


def run(tier, seed):
    ctx = vlib.Ctx("C19", tier, seed, LEVEL)
    ctx.assumptions = [
        "every scenario runs in a child process: an abort is observed as a missing result line",
        "caller buffers have exactly the announced size, surrounded by canaries",
        "authorisation through the C API uses the default 1 ms time limit, so only a wrong success is treated as a mismatch",
    ]
    big = tier == "thorough"
    c = {"ExportOn": True, "MaxCalls": 2 if big else 1}
    cfg = vlib.write_cfg(os.path.join(ctx.work, "capi.cfg"), c, ["ErrorChannelSound", "Total", "Export"])
    res = ctx.tlc("CApi", cfg, name="capi", tags=("CAPI",), seed=seed)
    if res.violated:
        raise vlib.ToolError("CApi.tla invariant %s violated" % res.violated)
    if not big:
        # quick: every single call, plus the error-channel persistence pairs (a failing call followed by a succeeding one)
        c2 = {"ExportOn": True, "MaxCalls": 2}
        cfg2 = vlib.write_cfg(os.path.join(ctx.work, "capi2.cfg"), c2, ["ErrorChannelSound", "Total", "Export"])
        res2 = ctx.tlc("CApi", cfg2, name="capi2", tags=("CAPI",), seed=seed)
        import json, random
        rnd = random.Random(seed)
        pairs = [r for r in vlib.read_ndjson(res2.exports["CAPI"]) if rnd.random() < 0.08]
        with open(res.exports["CAPI"], "a") as f:
            for r in pairs:
                f.write(json.dumps(r) + "\n")
    else:
        # thorough: every pair, plus a sample of the triples (a call menu of 47 calls: 4 x 47^3 scenarios)
        c3 = {"ExportOn": True, "MaxCalls": 3}
        cfg3 = vlib.write_cfg(os.path.join(ctx.work, "capi3.cfg"), c3, ["ErrorChannelSound", "Total", "Export"])
        res3 = ctx.tlc("CApi", cfg3, name="capi3", tags=("CAPI",), seed=seed)
        import json, random
        rnd = random.Random(seed)
        with open(res.exports["CAPI"], "a") as f:
            for r in vlib.read_ndjson(res3.exports["CAPI"]):
                if rnd.random() < 0.03:
                    f.write(json.dumps(r) + "\n")
    ac.replay(ctx, res.exports["CAPI"], cmd="capi-replay", sig_prefix="replay:capi", describe=describe)
    return ctx.finish(
        rule="CApi.tla: handle table + error channel; after a fixed setup (2-block token: root key of the scenario's algorithm, block key of the scenario's block algorithm) every call of a 32-call menu (serialize / "
             "serialize_sealed with size query, block_count, block_context and print_block_source with every index in 0..n+1, print, authorize, key pair and public key round "
             "trips, from_bytes, append_block, authorizer creation, builder_build; each with a live and a null handle, the token calls also on a sealed token), singly and in pairs (thorough: all pairs and 3 % of the triples) (error-channel persistence), for both "
             "signature algorithms. Invariants ErrorChannelSound, Total. Each scenario runs in a child process calling the real extern \"C\" functions: outcome class, error kind, "
             "announced = written size, canaries, and equality with the same operation through the Rust API (bytes, keys, printed sources).")


def replay(path, seed):
    return ac.replay_file("C19", path, cmd_default="capi-replay")
