"""C20 - parameters are data, never code."""
import os

import vlib
from props import authcommon as ac

LEVEL = "model_checking"


def describe(case, row):
    c = case["c"]
    return ":%s:%s:%s:want=%s" % (c["pos"], (c["v"] + ("" if c.get("v2", "-") == "-" else "+" + c["v2"])) if not row["got"].startswith("PANIC") else "any", row["got"].split(" ")[0], case["outcome"])


def run(tier, seed):
    ctx = vlib.Ctx("C20", tier, seed, LEVEL)
    ctx.assumptions = [
        "one hole per item, or two independent holes {p} {q} for the pair positions; the reference for 'same structure' is the item parsed from the source with the value written as a literal at the hole, compared as serialized token bytes (blocks) or builder snapshot bytes (policies)",
        "the macro path of parameter binding is covered by C18",
    ]
    c = {"ExportOn": True}
    cfg = vlib.write_cfg(os.path.join(ctx.work, "params.cfg"), c, ["Total", "UnboundNeverAdded", "Export"])
    res = ctx.tlc("Params", cfg, name="params", tags=("PARAM",), seed=seed)
    if res.violated:
        raise vlib.ToolError("Params.tla invariant %s violated" % res.violated)
    ac.replay(ctx, res.exports["PARAM"], cmd="params-replay", sig_prefix="replay:params", describe=describe)
    return ctx.finish(
        rule="Params.tla: 28 one-hole positions and 14 two-hole positions (map key + its value, map key + nested value, two map entries, head + expression, term + scope, nested closures); one-hole positions: (fact / rule head / body terms, nested in array, set, map value, map key, expression values, nested in expression collections, "
             "closure bodies, rule / check / policy scopes) x 11 term values (incl. strings made of Datalog syntax, quotes, backslashes, newlines, collections, null) or 2 key "
             "algorithms x bound or not x strict or lenient setter x right or wrong parameter name; outcome table same-as-literal / refused / set-error / value-error, totality. "
             "Replay through Fact/Rule/Check/Policy::try_from + set/set_lenient/set_scope + BlockBuilder / AuthorizerBuilder add + build + print + authorizer; a bound item must "
             "serialize to the same bytes as the item written with the literal value; a panic anywhere is a violation.",
        exhaustive=True)


def replay(path, seed):
    return ac.replay_file("C20", path, cmd_default="params-replay")
