"""Shared driver code for the properties decided on spec/Chain.tla + ChainMC.tla
(C01, C02, C08, C15 and the chain part of C16)."""
import collections
import json
import os

import vlib

ALL_MUT = "AllMutations"


def consts(**over):
    c = {
        "PayloadVersion": "<- PV",
        "MaxOps": 3, "MaxBlocks": 3, "MaxToks": 1,
        "RootAlgs": "<- AlgsEd", "KeyAlgs": "<- AlgsBoth", "ExtAlgs": "<- AlgsEd",
        "FPayloads": "<- FP", "TPayloads": "<- TP",
        "Mutations": "<- AllMutations",
        "ExportOn": False, "OnlySealedBase": False, "SampleN": 1,
    }
    c.update(over)
    return c


def design(ctx, name, c, invariants, timeout=3000):
    cfg = vlib.write_cfg(os.path.join(ctx.work, name + ".cfg"), c, invariants)
    res = ctx.tlc("ChainMC", cfg, name=name, timeout=timeout)
    if res.violated:
        raise vlib.ToolError("spec invariant %s violated in the design check %s: see %s" % (res.violated, name, res.outfile))
    return res


def export(ctx, name, c, invariants, tags, timeout=3000):
    c = dict(c)
    c["ExportOn"] = True
    cfg = vlib.write_cfg(os.path.join(ctx.work, name + ".cfg"), c, list(invariants) + ["ExportForged", "ExportHonest"])
    res = ctx.tlc("ChainMC", cfg, name=name, tags=tags, timeout=timeout, seed=ctx.seed)
    if res.violated:
        raise vlib.ToolError("spec invariant %s violated in the export run %s: see %s" % (res.violated, name, res.outfile))
    os.remove(res.outfile)   # can be large
    return res


def replay_forged(ctx, path, weakness_relevant=lambda weak, row: True):
    """Replays exported adversary tokens on the real library; returns (rows, stats)."""
    out = path + ".verdict"
    p = vlib.vh("chain-forged", path, out)
    vlib.log("[%s] %s" % (ctx.prop, p.stdout.strip()))
    rows = vlib.read_ndjson(out)
    stats = collections.Counter()
    ncases = len(rows)
    ctx.cov["evaluations"] += ncases
    ctx.cov["traces_validated_against_impl"] += ncases
    classes = set()
    cases = None
    for r in rows:
        kind = r["mut"]["kind"]
        classes.add((kind, r["mut"]["b"], r["expect_accept"], r["authentic"]))
        weak = r["weakness"]
        problems = r["problems"]
        if weak != "none":
            # a named weakness of the design: confirmed when the real code accepts too
            real_rejects = [p for p in problems if "spec accepts" in p]
            others = [p for p in problems if "spec accepts" not in p]
            if not problems and not weakness_relevant(weak, r):
                stats["weakness-not-relevant:" + weak] += 1
                continue
            if not problems:
                stats["weakness-confirmed:" + weak] += 1
                ctx.finding("design:" + weak,
                            "mutation %s block %s accepted by the real code (token %s...)" % (kind, r["mut"]["b"], "n/a"),
                            {"kind": "chain-forged", "row": r})
                continue
            if not others:
                stats["weakness-not-reproduced:" + weak] += 1
                continue
            problems = others
        if problems:
            stats["disagree"] += 1
            if cases is None:
                cases = vlib.NdjsonIndex(path)
            sig = "replay:chain-forged:%s:%s" % (kind, "panic" if r["panic"] else ("spec-accepts" if r["expect_accept"] else "spec-rejects"))
            ctx.finding(sig, "; ".join(problems[:2])[:300], {"kind": "chain-forged", "case": cases[r["idx"]], "row": r})
        else:
            stats["agree-accept" if r["expect_accept"] else "agree-reject"] += 1
    ctx.cov["distinct_nontrivial"] += len(classes)
    ctx.cov["replayed"]["forged:" + os.path.basename(path)] = dict(stats)
    if rows:
        ctx.sample({"forged_case": {"mut": rows[0]["mut"], "expect_accept": rows[0]["expect_accept"], "ok": rows[0]["ok"]}})
        acc = [r for r in rows if r["expect_accept"] and r["mut"]["kind"] not in ("Identity",)]
        if acc:
            ctx.sample({"forged_case_accepted": {"mut": acc[0]["mut"], "authentic": acc[0]["authentic"], "weakness": acc[0]["weakness"]}})
    return rows, stats


def replay_honest(ctx, path):
    out = path + ".verdict"
    p = vlib.vh("chain-honest", path, out)
    vlib.log("[%s] %s" % (ctx.prop, p.stdout.strip()))
    rows = vlib.read_ndjson(out)
    steps = 0
    for r in rows:
        steps += r["steps_checked"]
        if not r["ok"]:
            ops = "+".join(o["op"] for o in r["log"])
            first = r["problems"][0]
            kind = "sealed-op" if "sealed" in first else ("refused" if "refused" in first else ("bytes" if "differs from the spec" in first else "roundtrip"))
            ctx.finding("replay:chain-honest:%s" % kind, "%s: %s" % (ops, first[:300]),
                        {"kind": "chain-honest", "row": r})
    ctx.cov["evaluations"] += steps
    ctx.cov["traces_validated_against_impl"] += len(rows)
    ctx.cov["distinct_nontrivial"] += len(rows)
    ctx.cov["replayed"]["honest:" + os.path.basename(path)] = {"histories": len(rows), "api_steps_checked": steps,
                                                              "disagree": sum(1 for r in rows if not r["ok"])}
    if rows:
        ctx.sample({"honest_history": [dict((k, (v if not isinstance(v, dict) else v.get("id"))) for k, v in o.items()) for o in rows[-1]["log"]]})
    return rows


def replay_file(prop, path):
    """--replay: re-run one stored case"""
    d = json.load(open(path))
    rp = d["replay"]
    tmp = os.path.join(vlib.WORK, "replay-%s.ndjson" % prop)
    os.makedirs(vlib.WORK, exist_ok=True)
    kind = rp["kind"]
    with open(tmp, "w") as f:
        f.write(json.dumps(rp.get("case") or rp.get("row")) + "\n")
    p = vlib.vh(kind, tmp, tmp + ".verdict", check=False)
    print(p.stdout)
    rows = vlib.read_ndjson(tmp + ".verdict")
    print(json.dumps(rows, indent=1)[:4000])
    bad = any(not r.get("ok", True) for r in rows)
    if bad:
        print("VIOLATION property=%s replay=%s" % (prop, path))
        return 1
    return 0
