"""Common driver machinery for the biscuit-rust TLA+ model-based checks.

Exit codes of bin/check: 0 = property held on everything explored (known findings
are printed as KNOWN-FINDING lines), 1 = VIOLATION line printed, 2 = tool error.
"""
import json
import os
import re
import shutil
import subprocess
import sys
import time

VERIF = os.path.dirname(os.path.dirname(os.path.abspath(__file__)))
SPEC = os.path.join(VERIF, "spec")
HARNESS = os.path.join(VERIF, "harness")
VH = os.path.join(HARNESS, "target", "debug", "vh")
EVID = os.path.join(VERIF, "evidence")
REPLAYS = os.path.join(EVID, "replays")
WORK = os.path.join(VERIF, "work")
KNOWN = os.path.join(VERIF, "known_findings.json")
TLC_WORKERS = int(os.environ.get("VERIF_TLC_WORKERS", "12"))


class ToolError(Exception):
    pass


def log(msg):
    print(msg, flush=True)


def build_harness():
    """(Re)build the harness against /repo's current working tree, hooks on."""
    t0 = time.time()
    lock_src = "/repo/Cargo.lock"
    lock_dst = os.path.join(HARNESS, "Cargo.lock")
    if not os.path.exists(lock_dst) and os.path.exists(lock_src):
        shutil.copy(lock_src, lock_dst)
    env = dict(os.environ)
    env["CARGO_NET_OFFLINE"] = "true"
    p = subprocess.run(
        ["cargo", "build", "--offline", "--quiet", "--bin", "vh"],
        cwd=HARNESS, env=env, stdout=subprocess.PIPE, stderr=subprocess.STDOUT, text=True)
    if p.returncode != 0:
        tail = "\n".join(l for l in p.stdout.splitlines() if "warning" not in l)[-4000:]
        raise ToolError("harness build failed (does /repo still compile?):\n" + tail)
    return time.time() - t0


class TlcResult:
    def __init__(self):
        self.generated = 0
        self.distinct = 0
        self.depth = 0
        self.violated = None      # name of violated invariant, if any
        self.error = None         # other TLC error text
        self.outfile = None
        self.exports = {}         # tag -> ndjson path
        self.export_counts = {}
        self.wall = 0.0
        self.coverage = {}        # action name -> (distinct, total) when -coverage was on


def run_tlc(module, cfg, workdir, name=None, workers=None, timeout=1800, tags=(),
            extra=(), env_extra=None, simulate=None, coverage=False, seed=None):
    """Run TLC on spec/<module>.tla with spec/mc/<cfg>; extract PrintT export lines.

    PrintT(<<"TAG", ToJson(x)>>) lines whose TAG is in `tags` are written to
    <workdir>/<name>.<TAG>.ndjson (one JSON document per line)."""
    os.makedirs(workdir, exist_ok=True)
    name = name or os.path.splitext(os.path.basename(cfg))[0]
    out = os.path.join(workdir, name + ".tlc.out")
    meta = os.path.join(workdir, name + ".meta")
    shutil.rmtree(meta, ignore_errors=True)
    cmd = ["timeout", str(timeout), "tlc", "-workers", str(workers or TLC_WORKERS),
           "-metadir", meta, "-cleanup", "-noGenerateSpecTE",
           "-config", cfg if os.path.isabs(cfg) else os.path.join("mc", cfg)]
    if coverage:
        cmd += ["-coverage", "1"]
    if simulate:
        cmd += ["-simulate", simulate]
    if seed is not None:
        cmd += ["-seed", str(seed)]
    cmd += list(extra) + [module + ".tla"]
    env = dict(os.environ)
    env.setdefault("JAVA_TOOL_OPTIONS", "-Xss512m")
    if env_extra:
        env.update(env_extra)
    t0 = time.time()
    with open(out, "w") as f:
        p = subprocess.run(cmd, cwd=SPEC, stdout=f, stderr=subprocess.STDOUT, env=env)
    res = TlcResult()
    res.wall = time.time() - t0
    res.outfile = out
    writers = {}
    for t in tags:
        path = os.path.join(workdir, "%s.%s.ndjson" % (name, t))
        writers[t] = open(path, "w")
        res.exports[t] = path
        res.export_counts[t] = 0
    prefixes = {t: '<<"%s", ' % t for t in tags}
    err_lines = []
    with open(out, errors="replace") as f:
        for line in f:
            hit = False
            for t, pre in prefixes.items():
                if line.startswith(pre):
                    body = line[len(pre):].rstrip()
                    if body.endswith(">>"):
                        try:
                            writers[t].write(json.loads(body[:-2]) + "\n")
                            res.export_counts[t] += 1
                        except Exception:
                            pass
                    hit = True
                    break
            if hit:
                continue
            m = re.match(r"(\d+) states generated, (\d+) distinct states found", line)
            if m:
                res.generated = int(m.group(1))
                res.distinct = int(m.group(2))
            m = re.match(r"The depth of the complete state graph search is (\d+)", line)
            if m:
                res.depth = int(m.group(1))
            m = re.match(r"Error: Invariant (\S+) is violated", line)
            if m:
                res.violated = m.group(1)
            elif line.startswith("Error:") and res.violated is None and "behavior up to" not in line:
                err_lines.append(line.strip())
            m = re.match(r"<(\w+) line .* of module \w+>: (\d+):(\d+)", line)
            if m:
                res.coverage[m.group(1)] = (int(m.group(2)), int(m.group(3)))
    for w in writers.values():
        w.close()
    shutil.rmtree(meta, ignore_errors=True)
    if p.returncode == 124:
        raise ToolError("TLC timed out after %ss on %s/%s" % (timeout, module, cfg))
    if err_lines and res.violated is None:
        res.error = "; ".join(err_lines[:5])
    if res.error or (p.returncode not in (0, 12) and res.violated is None):
        tail = subprocess.run(["tail", "-30", out], stdout=subprocess.PIPE, text=True).stdout
        raise ToolError("TLC failed on %s/%s (rc=%s): %s\n%s" % (module, cfg, p.returncode, res.error, tail))
    return res


def write_cfg(path, constants, invariants=(), spec="Spec", properties=(), constraints=(), view=None,
              postcondition=None, init=None, nxt=None):
    """constants: dict name -> value; a value starting with '<-' is a substitution."""
    lines = []
    if init:
        lines += ["INIT " + init, "NEXT " + nxt]
    else:
        lines.append("SPECIFICATION " + spec)
    lines.append("CONSTANTS")
    for k, v in constants.items():
        if isinstance(v, bool):
            v = "TRUE" if v else "FALSE"
        v = str(v)
        if v.startswith("<-"):
            lines.append("  %s <- %s" % (k, v[2:].strip()))
        else:
            lines.append("  %s = %s" % (k, v))
    if invariants:
        lines.append("INVARIANTS " + " ".join(invariants))
    if properties:
        lines.append("PROPERTIES " + " ".join(properties))
    for c in constraints:
        lines.append("CONSTRAINT " + c)
    if view:
        lines.append("VIEW " + view)
    if postcondition:
        lines.append("POSTCONDITION " + postcondition)
    lines.append("CHECK_DEADLOCK FALSE")
    os.makedirs(os.path.dirname(path), exist_ok=True)
    with open(path, "w") as f:
        f.write("\n".join(lines) + "\n")
    return path


def trace_validate(module, cfg, trace, workdir, env_extra=None, timeout=1200, name=None):
    """TLC trace validation: returns (accepted, states, rejected_event_or_None)."""
    name = name or (module + "." + os.path.basename(trace))
    out = os.path.join(workdir, name + ".tlc.out")
    meta = os.path.join(workdir, name + ".meta")
    shutil.rmtree(meta, ignore_errors=True)
    env = dict(os.environ)
    env["JAVA_TOOL_OPTIONS"] = "-Xss1g -Dtlc2.tool.queue.IStateQueue=StateDeque"
    env["TRACE"] = trace
    if env_extra:
        env.update(env_extra)
    cmd = ["timeout", str(timeout), "tlc", "-workers", "1", "-metadir", meta, "-cleanup",
           "-noGenerateSpecTE", "-config", os.path.join("trace", cfg), module + ".tla"]
    with open(out, "w") as f:
        p = subprocess.run(cmd, cwd=SPEC, stdout=f, stderr=subprocess.STDOUT, env=env)
    shutil.rmtree(meta, ignore_errors=True)
    if p.returncode == 124:
        raise ToolError("TLC trace validation timed out on " + trace)
    text = open(out, errors="replace").read()
    distinct = 0
    m = re.search(r"(\d+) states generated, (\d+) distinct states found", text)
    if m:
        distinct = int(m.group(2))
    rejected = None
    m = re.search(r'<<"TRACE-REJECTED", (\d+), (".*")>>', text)
    if m:
        try:
            rejected = {"index": int(m.group(1)), "event": json.loads(json.loads(m.group(2)))}
        except Exception:
            rejected = {"index": int(m.group(1)), "event": m.group(2)[:500]}
    inv = re.search(r"Error: Invariant (\S+) is violated", text)
    if inv:
        rejected = rejected or {}
        rejected["invariant"] = inv.group(1)
    ok = ("Model checking completed. No error has been found." in text) and rejected is None
    if not ok and rejected is None:
        raise ToolError("TLC trace validation failed without a verdict on %s:\n%s" % (trace, text[-3000:]))
    return ok, distinct, rejected


class NdjsonIndex:
    """random access to the lines of a (possibly huge) ndjson file without loading it"""
    def __init__(self, path):
        self.path = path
        self.offsets = []
        off = 0
        with open(path, "rb") as f:
            for line in f:
                if line.strip():
                    self.offsets.append(off)
                off += len(line)

    def __getitem__(self, i):
        with open(self.path, "rb") as f:
            f.seek(self.offsets[i])
            return json.loads(f.readline())

    def __len__(self):
        return len(self.offsets)


def apalache(module, workdir, name, *args, timeout=900):
    """runs apalache-mc check on spec/<module>.tla; returns True when the outcome is NoError"""
    out = os.path.join(workdir, name + ".apalache.out")
    cmd = ["timeout", str(timeout), "apalache-mc", "check", "--out-dir=" + os.path.join(workdir, name + ".apalache")] + list(args) + [module + ".tla"]
    with open(out, "w") as f:
        p = subprocess.run(cmd, cwd=SPEC, stdout=f, stderr=subprocess.STDOUT)
    text = open(out, errors="replace").read()
    shutil.rmtree(os.path.join(workdir, name + ".apalache"), ignore_errors=True)
    if p.returncode == 124:
        raise ToolError("apalache timed out on %s %s" % (module, " ".join(args)))
    if "The outcome is: NoError" in text:
        return True
    if "The outcome is: Error" in text:
        return False
    raise ToolError("apalache gave no verdict on %s %s:\n%s" % (module, " ".join(args), text[-2000:]))


def tlaps(module, workdir, attempts=3, timeout=1800):
    """re-checks the proofs of spec/<module>.tla with tlapm; returns a dict for the evidence.
    A failed obligation that persists over the attempts with stretched back-end timeouts is reported
    as not re-proved (back ends time out on a loaded machine); it is not a verdict on the property."""
    last = ""
    for i in range(attempts):
        cache = os.path.join(workdir, "%s.tlaps-cache-%d" % (module, i))
        shutil.rmtree(cache, ignore_errors=True)
        cmd = ["timeout", str(timeout), "tlapm", "--threads", "4", "--stretch", str(6 * (i + 1)), "--cache-dir", cache, module + ".tla"]
        p = subprocess.run(cmd, cwd=SPEC, stdout=subprocess.PIPE, stderr=subprocess.STDOUT, text=True)
        shutil.rmtree(cache, ignore_errors=True)
        last = p.stdout[-3000:]
        m = re.search(r"All (\d+) obligations? proved", p.stdout)
        if m:
            return {"module": module + ".tla", "tool": "tlapm", "obligations_proved": int(m.group(1)), "attempts": i + 1}
    with open(os.path.join(workdir, module + ".tlaps.out"), "w") as f:
        f.write(last)
    m = re.search(r"(\d+)/(\d+) obligations failed", last)
    return {"module": module + ".tla", "tool": "tlapm", "obligations_proved": None, "attempts": attempts,
            "not_reproved": m.group(0) if m else "tlapm did not finish"}


def vh(*args, timeout=3600, check=True, env_extra=None):
    env = dict(os.environ)
    if env_extra:
        env.update(env_extra)
    p = subprocess.run([VH] + list(args), stdout=subprocess.PIPE, stderr=subprocess.PIPE,
                       text=True, timeout=timeout, env=env)
    if check and p.returncode != 0:
        raise ToolError("harness command failed: vh %s\n%s\n%s" % (" ".join(args), p.stdout[-2000:], p.stderr[-4000:]))
    return p


def read_ndjson(path):
    rows = []
    with open(path) as f:
        for line in f:
            line = line.strip()
            if line:
                rows.append(json.loads(line))
    return rows


def load_known():
    if not os.path.exists(KNOWN):
        return []
    return json.load(open(KNOWN))["findings"]


class Ctx:
    """One run of one property check."""

    def __init__(self, prop, tier, seed, level):
        self.prop = prop
        self.tier = tier
        self.seed = seed
        self.level = level
        self.t0 = time.time()
        self.work = os.path.join(WORK, prop)
        shutil.rmtree(self.work, ignore_errors=True)
        os.makedirs(self.work, exist_ok=True)
        os.makedirs(REPLAYS, exist_ok=True)
        self.violations = []
        self.known_hits = {}
        self.cov = {"states": 0, "transitions": 0, "traces_validated_against_impl": 0,
                    "evaluations": 0, "distinct_nontrivial": 0, "samples": [], "tlc_runs": [],
                    "replayed": {}, "known_findings_observed": [], "stale_findings": []}
        self.assumptions = []
        self.known = [k for k in load_known() if k["property"] == prop]
        # remove stale replay files of this property
        for f in os.listdir(REPLAYS):
            if f.startswith(prop + "-"):
                os.remove(os.path.join(REPLAYS, f))

    # -- TLC bookkeeping
    def tlc(self, module, cfg, **kw):
        res = run_tlc(module, cfg, self.work, **kw)
        self.cov["states"] += res.distinct
        self.cov["transitions"] += res.generated
        self.cov["tlc_runs"].append({"module": module, "cfg": cfg, "distinct_states": res.distinct,
                                     "states_generated": res.generated, "depth": res.depth,
                                     "violated": res.violated, "exports": res.export_counts,
                                     "wall_s": round(res.wall, 1)})
        log("[%s] tlc %s/%s: %d distinct states, %d generated, depth %d, %.1fs%s" % (
            self.prop, module, cfg, res.distinct, res.generated, res.depth, res.wall,
            (" VIOLATED " + res.violated) if res.violated else ""))
        return res

    def sample(self, obj):
        if len(self.cov["samples"]) < 6:
            self.cov["samples"].append(obj)

    # -- findings
    def finding(self, signature, instance, replay):
        """A disagreement with the property. Listed open known finding -> KNOWN-FINDING,
        else VIOLATION (exit 1)."""
        for k in self.known:
            if k.get("status") == "open" and k["signature"] == signature:
                n = self.known_hits.get(signature, 0)
                self.known_hits[signature] = n + 1
                if n == 0:
                    log("KNOWN-FINDING: property=%s %s %s" % (self.prop, signature, instance))
                    self.cov["known_findings_observed"].append({"signature": signature, "instance": instance})
                return False
        n = sum(1 for v in self.violations if v == signature)
        total = len(self.violations) + 1
        path = os.path.join(REPLAYS, "%s-%d.json" % (self.prop, total))
        if n < 2 and total <= 40:
            with open(path, "w") as f:
                json.dump({"property": self.prop, "signature": signature, "instance": instance,
                           "replay": replay}, f, indent=1)
            log("VIOLATION property=%s replay=%s" % (self.prop, path))
            log("  signature: %s | %s" % (signature, instance))
        self.violations.append(signature)
        return True

    def finish(self, rule, exhaustive=False, extra=None):
        for k in self.known:
            if k.get("status") == "open" and k["signature"] not in self.known_hits and not k.get("tier_thorough_only"):
                self.cov["stale_findings"].append(k["signature"])
        for sig, n in self.known_hits.items():
            for o in self.cov["known_findings_observed"]:
                if o["signature"] == sig:
                    o["count"] = n
        cov = dict(self.cov)
        cov["rule"] = rule
        cov["exhaustive"] = exhaustive
        if not cov["samples"]:
            cov["samples"] = ["(no case recorded)"]
        if extra:
            cov.update(extra)
        ev = {"property_id": self.prop, "tier": self.tier, "seed": self.seed, "level": self.level,
              "coverage": cov, "assumptions": self.assumptions,
              "wall_s": round(time.time() - self.t0, 1), "violations": len(self.violations)}
        os.makedirs(EVID, exist_ok=True)
        with open(os.path.join(EVID, self.prop + ".json"), "w") as f:
            json.dump(ev, f, indent=1)
        if self.violations:
            import collections as _c
            for sig, n in _c.Counter(self.violations).most_common():
                log("[%s] violation class %s: %d cases" % (self.prop, sig, n))
        log("[%s] %s tier done in %.1fs: %d violations, %d known findings observed" % (
            self.prop, self.tier, time.time() - self.t0, len(self.violations), len(self.known_hits)))
        return 1 if self.violations else 0
