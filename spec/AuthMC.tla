------------------------------- MODULE AuthMC -------------------------------
(***************************************************************************)
(* Scope-complete small universes of (token, authorizer) programs for      *)
(* C03 / C04 / C11 / C13.  One TLC state = one program; the spec computes  *)
(* the full authorization result, the final world with origins and query   *)
(* results; every state is exported and replayed on the real library.      *)
(*                                                                         *)
(* Every block i owns the distinguishable fact f("b<i>") (authorizer:      *)
(* f("az")), so that visibility of each origin is observable.              *)
(***************************************************************************)
EXTENDS Authorizer, TLC, Json

CONSTANTS Universe,     \* "checks" | "policies" | "alts" | "atten" | "guards"
          MaxBlocks,    \* 1..3
          Exts,         \* external key names available for blocks >= 1, incl. "none"
          ScopeMenu,    \* set of scopes
          AttenSize,    \* "small" | "large" (menus of the "atten" universe)
          ExportOn, SampleN

VARIABLES prog,   \* the program
          extb,   \* C03: the appended block (or NoBlock)
          seed    \* enumeration seed (stage 0) / done marker (stage 1)

vars == <<prog, extb, seed>>

X == "$x"

F(c) == Atom("f", <<c>>)
D(c) == Atom("d", <<c>>)
Own(id) == IF id = AZ THEN "az" ELSE <<"b0", "b1", "b2", "b3">>[id + 1]

Q(body, scope)    == [body |-> body, guards |-> <<>>, scope |-> scope]
QG(body, g, scope) == [body |-> body, guards |-> <<g>>, scope |-> scope]
R(head, body, scope) == [head |-> head, body |-> body, guards |-> <<>>, scope |-> scope]
Chk(kind, qs) == [kind |-> kind, queries |-> qs]
Pol(kind, qs) == [kind |-> kind, queries |-> qs]

MkBlock(id, ext, scope, rules, checks) ==
    [ext |-> ext, scope |-> scope, facts |-> {F(Own(id))}, rules |-> rules, checks |-> checks]
MkAuthz(scope, rules, checks, policies) ==
    [scope |-> scope, facts |-> {F("az")}, rules |-> rules, checks |-> checks, policies |-> policies]

NoBlock == [ext |-> "none", scope |-> {}, facts |-> {}, rules |-> <<>>, checks |-> <<>>]

AllowTrue == Pol("allow", <<Q(<<>>, {})>>)

Consts  == {"b0", "b1", "b2", "az"}
QBodies == {<<F(c)>> : c \in Consts \cup {X}} \cup {<<D(c)>> : c \in Consts \cup {X}}
Kinds   == {"one", "all", "reject"}
Owners(n) == (0..(n-1)) \cup {AZ}

DeriveRule(scope) == R(D(X), <<F(X)>>, scope)

\* program skeleton: n blocks with external keys e (sequence), one optional rule
\* (owner ro, scope rs), one optional check (owner co), block scope bs on `so`
SkeletonR(n, e, ro, rules, co, chk, so, bs, policies) ==
    [blocks |-> [i \in 1..n |->
                   MkBlock(i - 1, IF i = 1 THEN "none" ELSE e[i - 1],
                           IF so = i - 1 THEN bs ELSE {},
                           IF ro = i - 1 THEN rules ELSE <<>>,
                           IF co = i - 1 THEN <<chk>> ELSE <<>>)],
     authz |-> MkAuthz(IF so = AZ THEN bs ELSE {},
                       IF ro = AZ THEN rules ELSE <<>>,
                       IF co = AZ THEN <<chk>> ELSE <<>>,
                       policies)]
Skeleton(n, e, ro, rs, co, chk, so, bs, policies) == SkeletonR(n, e, ro, <<DeriveRule(rs)>>, co, chk, so, bs, policies)

\* the same derivation in two passes: m(x) <- f(x); d(x) <- m(x).  A rule of another block that derives
\* d(x) in ONE pass reaches the fact first, under a larger origin; the two-pass derivation must still
\* add its own (smaller, more widely trusted) origin.
M(c) == Atom("m", <<c>>)
ChainRules(scope) == <<R(M(X), <<F(X)>>, scope), R(D(X), <<M(X)>>, scope)>>

NoOwner == 77

\* Two-stage choice so that TLC workers share the enumeration: Init picks the
\* `seed` (a few parameters), one Next step picks the rest of the program.
Seed(n, e1, e2, ro) == [stage |-> 0, n |-> n, e1 |-> e1, e2 |-> e2, ro |-> ro]

SeedSet ==
    {Seed(n, e1, e2, ro) : n \in 1..MaxBlocks, e1 \in Exts, e2 \in Exts, ro \in Owners(MaxBlocks) \cup {NoOwner}}

SeedOK(sd) ==
    /\ (sd.ro \in 0..(MaxBlocks-1)) => sd.ro < sd.n
    /\ (sd.n < 3) => sd.e2 = "none"
    /\ (sd.n < 2) => sd.e1 = "none"
    /\ (Universe \in {"policies", "alts"}) => (sd.n = 2 /\ sd.e2 = "none")
    /\ (Universe = "alts") => sd.ro = NoOwner
    /\ (Universe = "guards") => (sd.n = 1 /\ sd.ro = NoOwner /\ sd.e1 = "none")
    /\ (Universe = "atten") => (sd.n < MaxBlocks /\ sd.e2 = "none" /\ sd.ro # sd.n)
    /\ (Universe = "passes") => (sd.n >= 2 /\ sd.ro = NoOwner)
    /\ (Universe = "noauth") => (sd.n = 1 /\ sd.ro = NoOwner /\ sd.e1 = "none" /\ sd.e2 = "none")

PickChecks(sd) ==
    \E rs \in ScopeMenu, co \in Owners(MaxBlocks), k \in Kinds, qb \in QBodies, cs \in ScopeMenu, bs \in ScopeMenu :
        /\ (sd.ro = NoOwner) => rs = {}
        /\ (co \in 0..(MaxBlocks-1)) => co < sd.n
        /\ (sd.ro = NoOwner) => qb[1].p = "f"       \* no rule: d is empty, skip the d bodies
        /\ prog' = Skeleton(sd.n, <<sd.e1, sd.e2>>, sd.ro, rs, co, Chk(k, <<Q(qb, cs)>>), co, bs, <<AllowTrue>>)
        /\ extb' = NoBlock

PolMenu ==
    {Pol(k, <<Q(b, s)>>) : k \in {"allow", "deny"}, b \in {<<F("b0")>>, <<F("b1")>>, <<F("az")>>, <<D(X)>>, <<>>}, s \in ScopeMenu}

PickPolicies(sd) ==
    \E rs \in ScopeMenu, p1 \in PolMenu, p2 \in PolMenu, as \in ScopeMenu :
        /\ (sd.ro = NoOwner) => rs = {}
        /\ prog' = Skeleton(sd.n, <<sd.e1, "none">>, sd.ro, rs, NoOwner, Chk("one", <<>>), AZ, as, <<p1, p2>>)
        /\ extb' = NoBlock

\* checks with two alternatives (the per-kind combination rule)
AltBodies == {<<F("b0")>>, <<F("b1")>>, <<F("az")>>, <<F("zz")>>}
PickAlts(sd) ==
    \E co \in Owners(2), k \in Kinds, b1 \in AltBodies, b2 \in AltBodies, s1 \in ScopeMenu, s2 \in ScopeMenu :
        /\ prog' = Skeleton(2, <<sd.e1, "none">>, NoOwner, {}, co, Chk(k, <<Q(b1, s1), Q(b2, s2)>>), NoOwner, {}, <<AllowTrue>>)
        /\ extb' = NoBlock

\* C03: a token of 1..2 blocks, an authorizer, and an appended block E.
\* What matters is who could come to see E's facts: every (owner, element scope, block scope) x E's key
\* x E's rules (incl. rules forging authority / authorizer facts).  AttenSize = "small" keeps exactly
\* those dimensions complete and trims the others; "large" crosses everything.
Small == AttenSize = "small"
Medium == AttenSize = "medium"      \* thorough tier: wider menus of E's rules, the bodies and the policies; one-pass derivations
ExtRules  ==
    IF Small
    THEN {<<>>, <<R(D(X), <<F(X)>>, {})>>, <<R(F("az"), <<>>, {})>>, <<R(F("b0"), <<>>, {})>>}
    ELSE {<<>>} \cup {<<R(D(X), <<F(X)>>, s)>> : s \in ScopeMenu}
         \cup {<<R(F("b0"), <<>>, {})>>, <<R(F("az"), <<>>, {})>>, <<R(D("b0"), <<>>, {})>>}
ExtChecks ==
    IF Small \/ Medium
    THEN {<<>>, <<Chk("one", <<Q(<<F("bE")>>, {})>>)>>, <<Chk("reject", <<Q(<<F("bE")>>, {})>>)>>, <<Chk("all", <<Q(<<F(X)>>, {})>>)>>}
    ELSE {<<>>} \cup {<<Chk(k, <<Q(<<F(c)>>, s)>>)>> : k \in Kinds, c \in {"b0", "bE", X}, s \in {{}, {"previous"}}}
AttenQB ==
    IF Small THEN {<<F(X)>>, <<D(X)>>} ELSE IF Medium THEN {<<F(X)>>, <<D(X)>>, <<D("bE")>>, <<F("bE")>>, <<F("b0")>>}
    ELSE QBodies \cup {<<D("bE")>>, <<F("bE")>>}
AttenKinds == IF Small THEN {"one", "reject"} ELSE Kinds
AttenPolicies ==
    IF Small
    THEN {AllowTrue, Pol("allow", <<Q(<<D(X)>>, {})>>), Pol("allow", <<Q(<<F("bE")>>, {})>>)}
    ELSE {AllowTrue, Pol("allow", <<Q(<<D(X)>>, {})>>), Pol("allow", <<Q(<<F("bE")>>, {})>>), Pol("deny", <<Q(<<D("bE")>>, {})>>)}
MinorScopes == IF Small \/ Medium THEN {{}, {"previous"}} ELSE ScopeMenu

PickAtten(sd) ==
    \E ee \in Exts, rs \in MinorScopes, co \in Owners(MaxBlocks - 1), k \in AttenKinds, qb \in AttenQB,
       sc \in ({<<s, {}>> : s \in ScopeMenu} \cup {<<{}, s>> : s \in ScopeMenu}),   \* <<check scope, block scope>>
       er \in ExtRules, ec \in ExtChecks, es \in MinorScopes, pol \in AttenPolicies, chain \in (IF Small THEN BOOLEAN ELSE {FALSE}) :
        /\ (sd.ro = NoOwner) => (rs = {} /\ ~chain)
        /\ (co \in 0..(MaxBlocks-1)) => co < sd.n
        /\ prog' = SkeletonR(sd.n, <<sd.e1, "none">>, sd.ro, IF chain THEN ChainRules(rs) ELSE <<DeriveRule(rs)>>,
                             co, Chk(k, <<Q(qb, sc[1])>>), co, sc[2], <<pol, Pol("deny", <<Q(<<>>, {})>>)>>)
        /\ extb' = [ext |-> ee, scope |-> es, facts |-> {F("bE")}, rules |-> er, checks |-> ec]
        /\ Untrusting(prog', ee)

\* C11: bindings on which a guard fails with an error coexist with bindings that match
XF(c) == Atom("x", <<c>>)
GuardMenu == {Guard("nz", X, "-"), Guard("lt", X, "i:3"), Guard("neq", X, "i:0"), Guard("ov", X, "-")}
FactSets == (SUBSET {XF("i:0"), XF("i:1"), XF("i:5"), XF("i:7")}) \ {{}}

PickGuards(sd) ==
    \E fs \in FactSets, co \in {0, AZ}, k \in Kinds, g \in GuardMenu, two \in BOOLEAN,
       pg \in {0, 1, 2}, rl \in {0, 1, 2}, smallFacts \in BOOLEAN :
        LET alt1 == QG(<<XF(X)>>, g, {})
            alts == IF two THEN <<alt1, QG(<<XF(X)>>, Guard("nz", X, "-"), {})>> ELSE <<alt1>>
            chk  == Chk(k, alts)
            pol  == CASE pg = 0 -> AllowTrue
                      [] pg = 1 -> Pol("allow", <<QG(<<XF(X)>>, Guard("nz", X, "-"), {})>>)
                      [] pg = 2 -> Pol("deny", <<QG(<<XF(X)>>, Guard("ov", X, "-"), {})>>)
            \* rl = 1: an authority rule whose guard divides by zero; rl = 2: in addition a rule of a
            \* second block (another trusted-origin set, hence another bucket of the rule store) that overflows
            r0 == IF rl >= 1 THEN <<[head |-> D(X), body |-> <<XF(X)>>, guards |-> <<Guard("nz", X, "-")>>, scope |-> {}]>> ELSE <<>>
            b1 == IF rl = 2 THEN <<[ext |-> "none", scope |-> {}, facts |-> {F("b1")},
                                    rules |-> <<[head |-> Atom("e", <<X>>), body |-> <<XF(X)>>, guards |-> <<Guard("ov", X, "-")>>, scope |-> {}]>>,
                                    checks |-> <<>>]>> ELSE <<>>
        IN /\ smallFacts => rl >= 1          \* a tiny fact budget only together with an erroring rule
           /\ prog' = [blocks |-> <<[ext |-> "none", scope |-> {}, facts |-> fs, rules |-> r0,
                                      checks |-> IF co = 0 THEN <<chk>> ELSE <<>>]>> \o b1,
                        authz |-> [scope |-> {}, facts |-> {}, rules |-> <<>>,
                                   checks |-> IF co = AZ THEN <<chk>> ELSE <<>>,
                                   policies |-> <<pol, Pol("deny", <<Q(<<>>, {})>>)>>]]
           /\ extb' = [NoBlock EXCEPT !.ext = IF smallFacts THEN "small-facts" ELSE "none"]
           /\ smallFacts => RunErrors(prog')     \* the first pass fails on a guard before any budget test

\* C11 / C10: the NUMBER OF PASSES of the fixpoint computation is a function of the program (naive
\* evaluation: every rule of a pass sees the facts known when the pass started), whatever the order in
\* which the engine visits its rule groups.  A derivation chain m <- f, d <- m, e <- d whose three rules
\* live in any blocks / the authorizer (so in different trust groups), under an iteration budget of
\* Passes - 1 (must fail), Passes (boundary: either, but always the same) or Passes + 5 (must succeed).
EA(c) == Atom("e", <<c>>)
RulesOwnedBy(id, pairs) == SelectSeq(pairs, LAMBDA pr : pr.o = id)
OnlyRules(pairs) == [i \in 1..Len(pairs) |-> pairs[i].r]
PassesOf(P) == Passes(InitialFacts(P), Rules(P))

\* `tw`: a TWIN of the first rule owned by somebody else - the same fact is then derived in the same pass
\* under two origins, and both copies belong to the world (who sees the fact depends on which copy)
PassPolicies == {AllowTrue, Pol("allow", <<Q(<<D(X)>>, {})>>), Pol("allow", <<Q(<<M(X)>>, {})>>)}
PickPasses(sd) ==
    \E o1 \in Owners(sd.n), o2 \in Owners(sd.n), o3 \in Owners(sd.n) \cup {NoOwner}, tw \in Owners(sd.n) \cup {NoOwner},
       s2 \in ScopeMenu, s3 \in {{}, {"previous"}}, delta \in {0, 1, 6}, pol \in PassPolicies :
        LET pairs == <<[o |-> o1, r |-> R(M(X), <<F(X)>>, {})], [o |-> o2, r |-> R(D(X), <<M(X)>>, s2)]>>
                     \o (IF o3 = NoOwner THEN <<>> ELSE <<[o |-> o3, r |-> R(EA(X), <<D(X)>>, s3)]>>)
                     \o (IF tw = NoOwner THEN <<>> ELSE <<[o |-> tw, r |-> R(M(X), <<F(X)>>, {})]>>)
            P == [blocks |-> [i \in 1..sd.n |->
                                [MkBlock(i - 1, IF i = 1 THEN "none" ELSE <<sd.e1, sd.e2>>[i - 1], {}, <<>>, <<>>)
                                    EXCEPT !.rules = OnlyRules(RulesOwnedBy(i - 1, pairs))]],
                  authz |-> [MkAuthz({}, <<>>, <<>>, <<pol, Pol("deny", <<Q(<<>>, {})>>)>>) EXCEPT !.rules = OnlyRules(RulesOwnedBy(AZ, pairs))]]
        IN /\ PassesOf(P) + delta >= 1
           /\ tw # o1
           /\ (tw # NoOwner /\ o3 # NoOwner) => delta = 6        \* trim: twins with the third rule only under a generous budget
           /\ (pol # AllowTrue) => delta = 6                      \* policies that look at the world: generous budget
           /\ prog' = P
           \* the budget rides in the `scope` field of the (unused) appended block: max_iterations = Passes - 1 + delta
           /\ extb' = [NoBlock EXCEPT !.ext = "budget", !.scope = {PassesOf(P) + delta - 1}]

\* an authorizer WITHOUT a token (AuthorizerBuilder::build_unauthenticated): every scope word is still
\* meaningful (authority and previous name no block, a key names none)
PickNoAuth(sd) ==
    \E rs \in ScopeMenu, k \in Kinds, qb \in QBodies, cs \in ScopeMenu, as \in ScopeMenu, p1 \in PolMenu :
        /\ prog' = [blocks |-> <<>>,
                    authz |-> MkAuthz(as, <<DeriveRule(rs)>>, <<Chk(k, <<Q(qb, cs)>>)>>, <<p1, Pol("deny", <<Q(<<>>, {})>>)>>)]
        /\ extb' = NoBlock

NoProg == [blocks |-> <<MkBlock(0, "none", {}, <<>>, <<>>)>>, authz |-> MkAuthz({}, <<>>, <<>>, <<AllowTrue>>)]

Init ==
    /\ seed \in {sd \in SeedSet : SeedOK(sd)}
    /\ prog = NoProg
    /\ extb = NoBlock

Next ==
    /\ seed.stage = 0
    /\ seed' = [seed EXCEPT !.stage = 1]
    /\ CASE Universe = "checks"   -> PickChecks(seed)
         [] Universe = "policies" -> PickPolicies(seed)
         [] Universe = "alts"     -> PickAlts(seed)
         [] Universe = "atten"    -> PickAtten(seed)
         [] Universe = "guards"   -> PickGuards(seed)
         [] Universe = "passes"   -> PickPasses(seed)
         [] Universe = "noauth"   -> PickNoAuth(seed)

Spec == Init /\ [][Next]_vars

Ready == seed.stage = 1

(***************************************************************************)
(* Properties of the semantics (design level).                             *)
(***************************************************************************)
\* every derived entry carries its rule's owner; block facts carry their block
OriginsWellFormed ==
    Ready => \A e \in World(prog) : e.o # {} /\ e.o \subseteq (BlockIds(prog) \cup {AZ})

\* a fact of block i is never visible to an element that does not trust i
ScopeIsolation ==
    Ready => \A id \in BlockIds(prog) :
        \A e \in Visible(World(prog), BlockTrust(prog, id)) : e.o \subseteq BlockTrust(prog, id)

\* the definitions proved about in TrustProof.tla (tlapm) are the ones of Authorizer.tla: same value on every
\* program, owner and scope of the universe
TP == INSTANCE TrustProof
TrustDefsAgree ==
    Ready => \A id \in BlockIds(prog) \cup {AZ} : \A sc \in ScopeMenu :
                 /\ TP!ElemTrust(prog, sc, id) = ElemTrust(prog, sc, id)
                 /\ (Universe = "atten" => TP!ElemTrust(TP!Extend(prog, extb), sc, id) = ElemTrust(Extend(prog, extb), sc, id))

\* C03
PE == Extend(prog, extb)
Monotone ==
    (Ready /\ Universe = "atten") =>
        LET a0 == Auth(prog)  a1 == Auth(PE) IN
        /\ a1.ok => (a0.ok /\ a0.index = a1.index)
        /\ a0.failed \subseteq a1.failed
        /\ \A id \in BlockIds(prog) \cup {AZ} :
              Visible(World(PE), ElemTrust(PE, {}, id)) = Visible(World(prog), ElemTrust(prog, {}, id))

ResultOf(P) ==
    LET a == Auth(P) W == World(P) IN
    [policy |-> a.policy, index |-> a.index, ok |-> a.ok,
     failed |-> {[owner |-> x[1], idx |-> x[2]] : x \in a.failed},
     world |-> {[o |-> e.o, p |-> e.f.p, a |-> e.f.a] : e \in W},
     q_default |-> QueryResult(P, W, R(Atom("r", <<X>>), <<F(X)>>, {}), QueryTrust(P, {})),
     q_one     |-> ExactlyOne(QueryResult(P, W, R(Atom("r", <<X>>), <<F(X)>>, {}), QueryTrust(P, {}))),
     q_all     |-> QueryResult(P, W, R(Atom("r", <<X>>), <<F(X)>>, {}), QueryAllTrust(P, {})),
     q_d_all   |-> QueryResult(P, W, R(Atom("r", <<X>>), <<D(X)>>, {}), QueryAllTrust(P, {}))]

\* C11 (the property as stated): refuted by TLC for the implemented first-binding-decides rule
DeterministicAll == (Ready /\ Universe = "guards") => Deterministic(prog)

MaxIterOf == CHOOSE x \in extb.scope : TRUE
PassOutcomes ==
    LET p == PassesOf(prog) IN
    IF MaxIterOf < p THEN {"limit"} ELSE IF MaxIterOf = p THEN {"limit", "result"} ELSE {"result"}

\* the design: a budget strictly below the number of passes always fails, strictly above always succeeds
PassesDecide ==
    (Ready /\ Universe = "passes") => (PassOutcomes # {} /\ (MaxIterOf # PassesOf(prog) => Cardinality(PassOutcomes) = 1))

ExportPasses ==
    (ExportOn /\ Ready /\ Universe = "passes") =>
        PrintT(<<"OUTC", ToJson([prog |-> prog, outcomes |-> PassOutcomes, small_facts |-> FALSE, max_iter |-> MaxIterOf,
                                 passes |-> PassesOf(prog), res |-> ResultOf(prog)])>>)

ExportOutcomes ==
    (ExportOn /\ Ready /\ Universe = "guards") =>
        PrintT(<<"OUTC", ToJson([prog |-> prog, outcomes |-> AuthOutcomes(prog), small_facts |-> extb.ext = "small-facts",
                                 res |-> ResultOf(prog)])>>)

Export ==
    (ExportOn /\ Ready /\ Universe # "guards" /\ (SampleN = 1 \/ RandomElement(1..SampleN) = 1)) =>
        PrintT(<<"PROG", ToJson([prog |-> prog, res |-> ResultOf(prog),
                                 ext |-> extb,
                                 res_ext |-> IF Universe = "atten" THEN ResultOf(PE) ELSE ResultOf(prog)])>>)

\* ---- constants for cfg files
ExtsAll == {"none", "E1", "E2"}
ExtsOne == {"none", "E1"}
Scopes5 == {{}, {"authority"}, {"previous"}, {"E1"}, {"E2"}}
Scopes4 == {{}, {"authority"}, {"previous"}, {"E1"}}
Scopes3 == {{}, {"previous"}, {"E1"}}
Scopes4k == {{}, {"previous"}, {"E1"}, {"E2"}}
VarsX == {"$x", "$y"}
NoInts == [i \in {} |-> 0]
SmallInts == [i \in {"i:0", "i:1", "i:3", "i:5", "i:7"} |-> CASE i = "i:0" -> 0 [] i = "i:1" -> 1 [] i = "i:3" -> 3 [] i = "i:5" -> 5 [] i = "i:7" -> 7]
=============================================================================
