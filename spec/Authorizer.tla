----------------------------- MODULE Authorizer -----------------------------
(***************************************************************************)
(* Authorization of a token by an authorizer: loading blocks into one      *)
(* scoped world, scope -> trusted origins, checks of the three kinds,      *)
(* ordered allow/deny policies, queries.  Written from the Biscuit         *)
(* specification ("Authorizer", "Scopes", "Checks and policies").          *)
(*                                                                         *)
(* A program is                                                            *)
(*   [blocks |-> <<B0, B1, ...>>, authz |-> A]                             *)
(*   Bi = [ext, scope, facts, rules, checks]   ext = "none" | key name     *)
(*   A  = [scope, facts, rules, checks, policies]                          *)
(*   rule   = [head, body, guards, scope]                                  *)
(*   check  = [kind, queries]   kind in {"one", "all", "reject"}           *)
(*   query  = [body, guards, scope]                                        *)
(*   policy = [kind, queries]   kind in {"allow", "deny"}                  *)
(*   scope  = set of "authority" | "previous" | key name   ({} = default)  *)
(* Block ids are 0-based (0 = authority); the authorizer's id is AZ.       *)
(***************************************************************************)
EXTENDS Datalog

NBlocks(P) == Len(P.blocks)
BlockIds(P) == 0..(NBlocks(P) - 1)
Blk(P, id) == P.blocks[id + 1]

ScopeWords == {"authority", "previous"}

\* which blocks were signed by the external key k
KeyBlocks(P, k) == {id \in BlockIds(P) : Blk(P, id).ext = k}

DefaultTrust == {0, AZ}

\* scope annotation -> trusted origins, for an element living in block `cur`
\* (cur = AZ for the authorizer) whose enclosing default is `dflt`
Trusted(P, scope, dflt, cur) ==
    IF scope = {} THEN dflt \cup {cur, AZ}
    ELSE {AZ, cur}
         \cup (IF "authority" \in scope THEN {0} ELSE {})
         \cup (IF "previous" \in scope /\ cur # AZ THEN 0..cur ELSE {})
         \cup UNION {KeyBlocks(P, k) : k \in scope \ ScopeWords}

BlockTrust(P, id) == Trusted(P, Blk(P, id).scope, DefaultTrust, id)
AuthzTrust(P)     == Trusted(P, P.authz.scope, DefaultTrust, AZ)

ElemTrust(P, scope, owner) ==
    IF owner = AZ THEN Trusted(P, scope, AuthzTrust(P), AZ)
    ELSE Trusted(P, scope, BlockTrust(P, owner), owner)

SeqToSet(s) == {s[i] : i \in 1..Len(s)}

InitialFacts(P) ==
    UNION {{Entry({id}, f) : f \in Blk(P, id).facts} : id \in BlockIds(P)}
    \cup {Entry({AZ}, f) : f \in P.authz.facts}

MkRule(P, r, owner) ==
    [head |-> r.head, body |-> r.body, guards |-> r.guards, owner |-> owner,
     trusted |-> ElemTrust(P, r.scope, owner)]

Rules(P) ==
    UNION {{MkRule(P, r, id) : r \in SeqToSet(Blk(P, id).rules)} : id \in BlockIds(P)}
    \cup {MkRule(P, r, AZ) : r \in SeqToSet(P.authz.rules)}

World(P) == Fix(InitialFacts(P), Rules(P))

(***************************************************************************)
(* Checks and policies over the final world W.                             *)
(***************************************************************************)
QueryHolds(P, W, q, owner, kind) ==
    LET tr == ElemTrust(P, q.scope, owner) IN
    CASE kind = "one"    -> MatchOne(q, W, tr)
      [] kind = "all"    -> MatchAll(q, W, tr)
      [] kind = "reject" -> MatchOne(q, W, tr)

\* `check if` / `check all`: one alternative suffices;
\* `reject if`: passes only when NONE of its alternatives matches
CheckPasses(P, W, c, owner) ==
    IF c.kind = "reject"
    THEN \A i \in 1..Len(c.queries) : ~QueryHolds(P, W, c.queries[i], owner, "reject")
    ELSE \E i \in 1..Len(c.queries) : QueryHolds(P, W, c.queries[i], owner, c.kind)

FailedIn(P, W, checks, owner) ==
    LET idx == {i \in 1..Len(checks) : ~CheckPasses(P, W, checks[i], owner)} IN
    {<<owner, i - 1>> : i \in idx}

\* the set of failed checks as (owner, 0-based index) pairs
FailedChecks(P, W) ==
    FailedIn(P, W, P.authz.checks, AZ)
    \cup UNION {FailedIn(P, W, Blk(P, id).checks, id) : id \in BlockIds(P)}

PolicyMatches(P, W, pol) ==
    \E i \in 1..Len(pol.queries) : MatchOne(pol.queries[i], W, ElemTrust(P, pol.queries[i].scope, AZ))

\* 0 = no policy matched, else 1-based index of the first matching policy
FirstPolicy(P, W) ==
    LET m == {i \in 1..Len(P.authz.policies) : PolicyMatches(P, W, P.authz.policies[i])} IN
    IF m = {} THEN 0 ELSE CHOOSE i \in m : \A j \in m : i <= j

\* the result of authorize()
Auth(P) ==
    LET W == World(P)
        fp == FirstPolicy(P, W)
        failed == FailedChecks(P, W)
    IN [policy |-> IF fp = 0 THEN "none" ELSE P.authz.policies[fp].kind,
        index  |-> IF fp = 0 THEN 0 ELSE fp - 1,
        failed |-> failed,
        ok     |-> fp # 0 /\ P.authz.policies[fp].kind = "allow" /\ failed = {}]

(***************************************************************************)
(* Linearised evaluation (C11).  The engine visits the bindings of a query *)
(* in an unspecified order (hash-based stores).  `check if`, `reject if`   *)
(* and policies stop at the first binding whose guards do not evaluate to  *)
(* false: a match or an error; `check all` stops at the first binding that *)
(* is false or an error.  AltResults is the SET of results an alternative  *)
(* can produce over all visiting orders; evaluation is deterministic iff   *)
(* every such set is a singleton.                                          *)
(***************************************************************************)
AltResults(P, W, q, owner, kind) ==
    LET O == Outcomes(q, W, ElemTrust(P, q.scope, owner))
        errs == O \cap ErrKinds IN
    IF kind = "all"
    THEN IF O = {} THEN {"F"}
         ELSE IF O = {"T"} THEN {"T"}
         ELSE (IF "F" \in O THEN {"F"} ELSE {}) \cup errs
    ELSE (IF "T" \in O THEN {"T"} ELSE {}) \cup errs
         \cup (IF O \cap ({"T"} \cup ErrKinds) = {} THEN {"F"} ELSE {})

\* outcomes of one check: subset of {"pass", "fail"} \cup ErrKinds
RECURSIVE CheckOutcomesFrom(_, _, _, _, _)
CheckOutcomesFrom(P, W, c, owner, i) ==
    IF i > Len(c.queries) THEN {IF c.kind = "reject" THEN "pass" ELSE "fail"}
    ELSE LET A == AltResults(P, W, c.queries[i], owner, c.kind) IN
         (A \cap ErrKinds)
         \cup (IF "T" \in A THEN {IF c.kind = "reject" THEN "fail" ELSE "pass"} ELSE {})
         \cup (IF "F" \in A THEN CheckOutcomesFrom(P, W, c, owner, i + 1) ELSE {})

CheckOutcomes(P, W, c, owner) == CheckOutcomesFrom(P, W, c, owner, 1)

\* outcomes of the policy scan: error kinds, "none" or "matched"
RECURSIVE PolicyOutcomesFrom(_, _, _, _)
PolicyOutcomesFrom(P, W, i, j) ==
    IF i > Len(P.authz.policies) THEN {"none"}
    ELSE IF j > Len(P.authz.policies[i].queries) THEN PolicyOutcomesFrom(P, W, i + 1, 1)
    ELSE LET A == AltResults(P, W, P.authz.policies[i].queries[j], AZ, "one") IN
         (A \cap ErrKinds)
         \cup (IF "T" \in A THEN {"matched"} ELSE {})
         \cup (IF "F" \in A THEN PolicyOutcomesFrom(P, W, i, j + 1) ELSE {})

\* the checks in the order authorize() evaluates them: authorizer, authority, [policies], other blocks
ChecksOf(P, owner) ==
    LET cs == IF owner = AZ THEN P.authz.checks ELSE Blk(P, owner).checks IN
    [i \in 1..Len(cs) |-> [c |-> cs[i], owner |-> owner]]
RECURSIVE LaterBlockChecks(_, _)
LaterBlockChecks(P, id) == IF id >= NBlocks(P) THEN <<>> ELSE ChecksOf(P, id) \o LaterBlockChecks(P, id + 1)

\* error kinds reachable when the items of `seq` are evaluated in order, an error aborting the evaluation;
\* `then` is what follows when every item can complete without error
RECURSIVE SeqErrs(_, _, _, _)
SeqErrs(P, W, seq, then) ==
    IF seq = <<>> THEN then
    ELSE LET C == CheckOutcomes(P, W, Head(seq).c, Head(seq).owner) IN
         (C \cap ErrKinds) \cup (IF C \ ErrKinds # {} THEN SeqErrs(P, W, Tail(seq), then) ELSE {})

\* error kinds the fixpoint computation can report (every binding of every rule is evaluated
\* in a pass; which erroring rule is met first depends on the iteration order of the rule store)
RunErrKinds(P) == UNION {RuleErrKinds(r, World(P)) : r \in Rules(P)}
RunErrors(P) == RunErrKinds(P) # {}

\* the set of results authorize() can return over all visiting orders: error kinds and/or "result"
\* (the unique error-free result Auth(P))
AuthOutcomes(P) ==
    IF RunErrors(P) THEN RunErrKinds(P)
    ELSE LET W == World(P)
             pol == PolicyOutcomesFrom(P, W, 1, 1)
             tail == SeqErrs(P, W, LaterBlockChecks(P, 1), {"result"})
             afterPolicies == (pol \cap ErrKinds) \cup (IF pol \ ErrKinds # {} THEN tail ELSE {})
         IN SeqErrs(P, W, ChecksOf(P, AZ) \o ChecksOf(P, 0), afterPolicies)

Deterministic(P) == Cardinality(AuthOutcomes(P)) = 1

(***************************************************************************)
(* Queries issued on an authorizer.                                        *)
(***************************************************************************)
\* Authorizer::query : authority + authorizer unless the rule carries a scope
QueryTrust(P, scope) == Trusted(P, scope, DefaultTrust, AZ)
\* Authorizer::query_all : every block of the token unless the rule carries a scope
QueryAllTrust(P, scope) ==
    IF scope = {} THEN {AZ} \cup 0..NBlocks(P) ELSE Trusted(P, scope, DefaultTrust, AZ)

QueryResult(P, W, r, trusted) ==
    {e.f : e \in ApplyRule([head |-> r.head, body |-> r.body, guards |-> r.guards,
                            owner |-> AZ, trusted |-> trusted], W)}

\* Authorizer::query_exactly_one : the single fact of the result, or an error carrying how many were found
ExactlyOne(R) == [ok |-> Cardinality(R) = 1, n |-> Cardinality(R)]

(***************************************************************************)
(* Attenuation (C03): P extended by one more block E.                      *)
(***************************************************************************)
Extend(P, E) == [P EXCEPT !.blocks = Append(@, E)]

\* the premise of C03: neither the authorizer nor an earlier block names E's key
NamesKey(scope, k) == k \in scope
ElemNames(x, k) == NamesKey(x.scope, k)
BlockNames(B, k) ==
    \/ NamesKey(B.scope, k)
    \/ \E r \in SeqToSet(B.rules) : ElemNames(r, k)
    \/ \E c \in SeqToSet(B.checks) : \E i \in 1..Len(c.queries) : ElemNames(c.queries[i], k)
AuthzNames(A, k) ==
    \/ BlockNames(A, k)
    \/ \E pl \in SeqToSet(A.policies) : \E i \in 1..Len(pl.queries) : ElemNames(pl.queries[i], k)

Untrusting(P, k) ==
    k = "none" \/ (~AuthzNames(P.authz, k) /\ \A id \in BlockIds(P) : ~BlockNames(Blk(P, id), k))

\* facts visible to an element of P (owner, scope) in world W
VisibleTo(P, W, scope, owner) == Visible(W, ElemTrust(P, scope, owner))
=============================================================================
