----------------------------- MODULE Authorizer -----------------------------
(***************************************************************************)
(* Authorization of a token by an authorizer: loading blocks into one      *)
(* scoped world, scope -> trusted origins, checks of the three kinds,      *)
(* ordered allow/deny policies, queries.  Written from the Biscuit         *)
(* specification ("Authorizer", "Scopes", "Checks and policies").          *)
(*                                                                         *)
(* A program is                                                            *)
(*   [blocks |-> <<B0, B1, ...>>, authz |-> A]                             *)
(*   Bi = [ext, scope, facts, rules, checks]   ext = "none" | key name     *)
(*   A  = [scope, facts, rules, checks, policies]                          *)
(*   rule   = [head, body, guards, scope]                                  *)
(*   check  = [kind, queries]   kind in {"one", "all", "reject"}           *)
(*   query  = [body, guards, scope]                                        *)
(*   policy = [kind, queries]   kind in {"allow", "deny"}                  *)
(*   scope  = set of "authority" | "previous" | key name   ({} = default)  *)
(* Block ids are 0-based (0 = authority); the authorizer's id is AZ.       *)
(***************************************************************************)
EXTENDS Datalog

NBlocks(P) == Len(P.blocks)
BlockIds(P) == 0..(NBlocks(P) - 1)
Blk(P, id) == P.blocks[id + 1]

ScopeWords == {"authority", "previous"}

\* which blocks were signed by the external key k
KeyBlocks(P, k) == {id \in BlockIds(P) : Blk(P, id).ext = k}

DefaultTrust == {0, AZ}

\* scope annotation -> trusted origins, for an element living in block `cur`
\* (cur = AZ for the authorizer) whose enclosing default is `dflt`
Trusted(P, scope, dflt, cur) ==
    IF scope = {} THEN dflt \cup {cur, AZ}
    ELSE {AZ, cur}
         \cup (IF "authority" \in scope THEN {0} ELSE {})
         \cup (IF "previous" \in scope /\ cur # AZ THEN 0..cur ELSE {})
         \cup UNION {KeyBlocks(P, k) : k \in scope \ ScopeWords}

BlockTrust(P, id) == Trusted(P, Blk(P, id).scope, DefaultTrust, id)
AuthzTrust(P)     == Trusted(P, P.authz.scope, DefaultTrust, AZ)

ElemTrust(P, scope, owner) ==
    IF owner = AZ THEN Trusted(P, scope, AuthzTrust(P), AZ)
    ELSE Trusted(P, scope, BlockTrust(P, owner), owner)

SeqToSet(s) == {s[i] : i \in 1..Len(s)}

InitialFacts(P) ==
    UNION {{Entry({id}, f) : f \in Blk(P, id).facts} : id \in BlockIds(P)}
    \cup {Entry({AZ}, f) : f \in P.authz.facts}

MkRule(P, r, owner) ==
    [head |-> r.head, body |-> r.body, guards |-> r.guards, owner |-> owner,
     trusted |-> ElemTrust(P, r.scope, owner)]

Rules(P) ==
    UNION {{MkRule(P, r, id) : r \in SeqToSet(Blk(P, id).rules)} : id \in BlockIds(P)}
    \cup {MkRule(P, r, AZ) : r \in SeqToSet(P.authz.rules)}

World(P) == Fix(InitialFacts(P), Rules(P))

(***************************************************************************)
(* Checks and policies over the final world W.                             *)
(***************************************************************************)
QueryHolds(P, W, q, owner, kind) ==
    LET tr == ElemTrust(P, q.scope, owner) IN
    CASE kind = "one"    -> MatchOne(q, W, tr)
      [] kind = "all"    -> MatchAll(q, W, tr)
      [] kind = "reject" -> MatchOne(q, W, tr)

\* `check if` / `check all`: one alternative suffices;
\* `reject if`: passes only when NONE of its alternatives matches
CheckPasses(P, W, c, owner) ==
    IF c.kind = "reject"
    THEN \A i \in 1..Len(c.queries) : ~QueryHolds(P, W, c.queries[i], owner, "reject")
    ELSE \E i \in 1..Len(c.queries) : QueryHolds(P, W, c.queries[i], owner, c.kind)

FailedIn(P, W, checks, owner) ==
    LET idx == {i \in 1..Len(checks) : ~CheckPasses(P, W, checks[i], owner)} IN
    {<<owner, i - 1>> : i \in idx}

\* the set of failed checks as (owner, 0-based index) pairs
FailedChecks(P, W) ==
    FailedIn(P, W, P.authz.checks, AZ)
    \cup UNION {FailedIn(P, W, Blk(P, id).checks, id) : id \in BlockIds(P)}

PolicyMatches(P, W, pol) ==
    \E i \in 1..Len(pol.queries) : MatchOne(pol.queries[i], W, ElemTrust(P, pol.queries[i].scope, AZ))

\* 0 = no policy matched, else 1-based index of the first matching policy
FirstPolicy(P, W) ==
    LET m == {i \in 1..Len(P.authz.policies) : PolicyMatches(P, W, P.authz.policies[i])} IN
    IF m = {} THEN 0 ELSE CHOOSE i \in m : \A j \in m : i <= j

\* the result of authorize()
Auth(P) ==
    LET W == World(P)
        fp == FirstPolicy(P, W)
        failed == FailedChecks(P, W)
    IN [policy |-> IF fp = 0 THEN "none" ELSE P.authz.policies[fp].kind,
        index  |-> IF fp = 0 THEN 0 ELSE fp - 1,
        failed |-> failed,
        ok     |-> fp # 0 /\ P.authz.policies[fp].kind = "allow" /\ failed = {}]

(***************************************************************************)
(* Linearised evaluation (C11).  The engine visits the bindings of a query *)
(* in an unspecified order (hash-based stores).  `check if`, `reject if`   *)
(* and policies stop at the first binding whose guards do not evaluate to  *)
(* false: a match or an error; `check all` stops at the first binding that *)
(* is false or an error.  AltResults is the SET of results an alternative  *)
(* can produce over all visiting orders; evaluation is deterministic iff   *)
(* every such set is a singleton.                                          *)
(***************************************************************************)
AltResults(P, W, q, owner, kind) ==
    LET O == Outcomes(q, W, ElemTrust(P, q.scope, owner)) IN
    IF kind = "all"
    THEN IF O = {} THEN {"F"}
         ELSE IF O = {"T"} THEN {"T"}
         ELSE (IF "F" \in O THEN {"F"} ELSE {}) \cup (IF "E" \in O THEN {"E"} ELSE {})
    ELSE (IF "T" \in O THEN {"T"} ELSE {}) \cup (IF "E" \in O THEN {"E"} ELSE {})
         \cup (IF O \cap {"T", "E"} = {} THEN {"F"} ELSE {})

\* outcomes of one check: subset of {"pass", "fail", "error"}
RECURSIVE CheckOutcomesFrom(_, _, _, _, _)
CheckOutcomesFrom(P, W, c, owner, i) ==
    IF i > Len(c.queries) THEN {IF c.kind = "reject" THEN "pass" ELSE "fail"}
    ELSE LET A == AltResults(P, W, c.queries[i], owner, c.kind) IN
         (IF "E" \in A THEN {"error"} ELSE {})
         \cup (IF "T" \in A THEN {IF c.kind = "reject" THEN "fail" ELSE "pass"} ELSE {})
         \cup (IF "F" \in A THEN CheckOutcomesFrom(P, W, c, owner, i + 1) ELSE {})

CheckOutcomes(P, W, c, owner) == CheckOutcomesFrom(P, W, c, owner, 1)

\* outcomes of the policy scan: "error", "none" or the 1-based index as a string-free record
RECURSIVE PolicyOutcomesFrom(_, _, _, _)
PolicyOutcomesFrom(P, W, i, j) ==
    IF i > Len(P.authz.policies) THEN {[k |-> "none", i |-> 0]}
    ELSE IF j > Len(P.authz.policies[i].queries) THEN PolicyOutcomesFrom(P, W, i + 1, 1)
    ELSE LET A == AltResults(P, W, P.authz.policies[i].queries[j], AZ, "one") IN
         (IF "E" \in A THEN {[k |-> "error", i |-> 0]} ELSE {})
         \cup (IF "T" \in A THEN {[k |-> P.authz.policies[i].kind, i |-> i - 1]} ELSE {})
         \cup (IF "F" \in A THEN PolicyOutcomesFrom(P, W, i, j + 1) ELSE {})

AllChecks(P) ==
    {[c |-> P.authz.checks[i], owner |-> AZ] : i \in 1..Len(P.authz.checks)}
    \cup UNION {{[c |-> Blk(P, id).checks[i], owner |-> id] : i \in 1..Len(Blk(P, id).checks)} : id \in BlockIds(P)}

\* can the fixpoint computation itself fail on some binding of some rule ?
RunErrors(P) == \E r \in Rules(P) : RuleErrors(r, World(P))

\* the set of results authorize() can return over all visiting orders: "error" and/or the
\* (unique) error-free result
AuthOutcomes(P) ==
    LET W == World(P)
        chk == AllChecks(P)
        pol == PolicyOutcomesFrom(P, W, 1, 1)
        canError == RunErrors(P) \/ (\E x \in chk : "error" \in CheckOutcomes(P, W, x.c, x.owner))
                    \/ [k |-> "error", i |-> 0] \in pol
        canFinish == ~RunErrors(P) /\ (\A x \in chk : CheckOutcomes(P, W, x.c, x.owner) # {"error"})
                     /\ pol # {[k |-> "error", i |-> 0]}
    IN (IF canError THEN {"error"} ELSE {}) \cup (IF canFinish THEN {"result"} ELSE {})

Deterministic(P) == Cardinality(AuthOutcomes(P)) = 1

(***************************************************************************)
(* Queries issued on an authorizer.                                        *)
(***************************************************************************)
\* Authorizer::query : authority + authorizer unless the rule carries a scope
QueryTrust(P, scope) == Trusted(P, scope, DefaultTrust, AZ)
\* Authorizer::query_all : every block of the token unless the rule carries a scope
QueryAllTrust(P, scope) ==
    IF scope = {} THEN {AZ} \cup 0..NBlocks(P) ELSE Trusted(P, scope, DefaultTrust, AZ)

QueryResult(P, W, r, trusted) ==
    {e.f : e \in ApplyRule([head |-> r.head, body |-> r.body, guards |-> r.guards,
                            owner |-> AZ, trusted |-> trusted], W)}

(***************************************************************************)
(* Attenuation (C03): P extended by one more block E.                      *)
(***************************************************************************)
Extend(P, E) == [P EXCEPT !.blocks = Append(@, E)]

\* the premise of C03: neither the authorizer nor an earlier block names E's key
NamesKey(scope, k) == k \in scope
ElemNames(x, k) == NamesKey(x.scope, k)
BlockNames(B, k) ==
    \/ NamesKey(B.scope, k)
    \/ \E r \in SeqToSet(B.rules) : ElemNames(r, k)
    \/ \E c \in SeqToSet(B.checks) : \E i \in 1..Len(c.queries) : ElemNames(c.queries[i], k)
AuthzNames(A, k) ==
    \/ BlockNames(A, k)
    \/ \E pl \in SeqToSet(A.policies) : \E i \in 1..Len(pl.queries) : ElemNames(pl.queries[i], k)

Untrusting(P, k) ==
    k = "none" \/ (~AuthzNames(P.authz, k) /\ \A id \in BlockIds(P) : ~BlockNames(Blk(P, id), k))

\* facts visible to an element of P (owner, scope) in world W
VisibleTo(P, W, scope, owner) == Visible(W, ElemTrust(P, scope, owner))
=============================================================================
