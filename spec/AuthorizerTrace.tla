--------------------------- MODULE AuthorizerTrace ---------------------------
(***************************************************************************)
(* Trace validation of Authorizer::authorize (hook H2): for programs of    *)
(* the AuthMC universes, every evaluated alternative of every check and    *)
(* policy is logged with the trusted-origin set the engine used and its    *)
(* result.  The trace must be a run of the step-wise authorization of      *)
(* Authorizer.tla:                                                         *)
(*   - evaluation order: authorizer checks, authority checks, policies     *)
(*     (stop at the first match), then the checks of blocks 1..n;          *)
(*   - inside a check, alternatives in order; `check if` / `check all`     *)
(*     stop at the first satisfied alternative, `reject if` stops at the   *)
(*     first alternative that matches;                                     *)
(*   - the trusted origins of each alternative are ElemTrust(scope, owner);*)
(*   - the logged result is the spec's result for that alternative;        *)
(*   - the final answer is the one Auth(P) defines.                        *)
(* Events: {"ev":"program", prog}, {"ev":"decision", what, owner, index,   *)
(* trusted, res}, {"ev":"result", policy, index, ok, failed}.              *)
(***************************************************************************)
EXTENDS Authorizer, TLC, Json, IOUtils, SequencesExt

Rec == ndJsonDeserialize(IOEnv.TRACE)

\* JSON arrays arrive as sequences: rebuild the sets of the program record
FixQuery(q) == [body |-> q.body, guards |-> q.guards, scope |-> ToSet(q.scope)]
FixRule(r) == [head |-> r.head, body |-> r.body, guards |-> r.guards, scope |-> ToSet(r.scope)]
FixCheck(c) == [kind |-> c.kind, queries |-> [i \in 1..Len(c.queries) |-> FixQuery(c.queries[i])]]
FixBlock(b) == [ext |-> b.ext, scope |-> ToSet(b.scope), facts |-> ToSet(b.facts),
                rules |-> [i \in 1..Len(b.rules) |-> FixRule(b.rules[i])],
                checks |-> [i \in 1..Len(b.checks) |-> FixCheck(b.checks[i])]]
FixProg(p) == [blocks |-> [i \in 1..Len(p.blocks) |-> FixBlock(p.blocks[i])],
               authz |-> [scope |-> ToSet(p.authz.scope), facts |-> ToSet(p.authz.facts),
                          rules |-> [i \in 1..Len(p.authz.rules) |-> FixRule(p.authz.rules[i])],
                          checks |-> [i \in 1..Len(p.authz.checks) |-> FixCheck(p.authz.checks[i])],
                          policies |-> [i \in 1..Len(p.authz.policies) |->
                                          [kind |-> p.authz.policies[i].kind,
                                           queries |-> [j \in 1..Len(p.authz.policies[i].queries) |-> FixQuery(p.authz.policies[i].queries[j])]]]]]

VARIABLES P,       \* the program being authorized
          W,       \* its final world (computed by the spec)
          phase,   \* "azchecks" | "auth0" | "policies" | "blocks" | "done"
          ci,      \* index of the current check / policy (1-based)
          ai,      \* index of the current alternative (1-based)
          blk,     \* current block id in phase "blocks"
          l
tvars == <<P, W, phase, ci, ai, blk, l>>

NoP == [blocks |-> <<>>, authz |-> [scope |-> {}, facts |-> {}, rules |-> <<>>, checks |-> <<>>, policies |-> <<>>]]
TraceInit == P = NoP /\ W = {} /\ phase = "done" /\ ci = 1 /\ ai = 1 /\ blk = 0 /\ l = 1

IsEvent(e) == l <= Len(Rec) /\ Rec[l].ev = e /\ l' = l + 1

TProgram ==
    /\ IsEvent("program")
    /\ P' = FixProg(Rec[l].prog)
    /\ W' = World(FixProg(Rec[l].prog))
    /\ phase' = "azchecks" /\ ci' = 1 /\ ai' = 1 /\ blk' = 0

\* the list of checks of the current phase and their owner
CurChecks == CASE phase = "azchecks" -> P.authz.checks
               [] phase = "auth0" -> Blk(P, 0).checks
               [] phase = "blocks" -> Blk(P, blk).checks
               [] OTHER -> <<>>
CurOwner == CASE phase = "azchecks" -> AZ [] phase = "auth0" -> 0 [] phase = "blocks" -> blk [] OTHER -> AZ

\* silently skip phases / checks that have nothing (left) to evaluate
Advance(ph, c, b) ==
    \* normalised position: the first (phase, check index, block) >= the given one that has an alternative to evaluate
    LET RECURSIVE Go(_, _, _)
        Go(p, i, k) ==
            CASE p = "azchecks" -> IF i <= Len(P.authz.checks) THEN <<p, i, k>> ELSE Go("auth0", 1, 0)
              [] p = "auth0"    -> IF NBlocks(P) >= 1 /\ i <= Len(Blk(P, 0).checks) THEN <<p, i, k>> ELSE Go("policies", 1, 0)
              [] p = "policies" -> IF i <= Len(P.authz.policies) THEN <<p, i, k>> ELSE Go("blocks", 1, 1)
              [] p = "blocks"   -> IF k >= NBlocks(P) THEN <<"done", 1, 0>>
                                   ELSE IF i <= Len(Blk(P, k).checks) THEN <<p, i, k>> ELSE Go("blocks", 1, k + 1)
              [] OTHER -> <<"done", 1, 0>>
    IN Go(ph, c, b)

Pos == Advance(phase, ci, blk)

SetUsize(s) == {IF x > 1000000 THEN AZ ELSE x : x \in ToSet(s)}     \* usize::MAX stands for the authorizer

TDecisionCheck ==
    /\ IsEvent("decision") /\ Rec[l].what = "check"
    /\ Pos[1] \in {"azchecks", "auth0", "blocks"}
    /\ LET ph == Pos[1]  i == Pos[2]  b == Pos[3]
           owner == CASE ph = "azchecks" -> AZ [] ph = "auth0" -> 0 [] OTHER -> b
           chk == (CASE ph = "azchecks" -> P.authz.checks [] ph = "auth0" -> Blk(P, 0).checks [] OTHER -> Blk(P, b).checks)[i]
           q == chk.queries[ai]
           holds == QueryHolds(P, W, q, owner, chk.kind)
           res == IF chk.kind = "reject" THEN ~holds ELSE holds        \* what the engine logs: is the alternative "passing"
           stop == IF chk.kind = "reject" THEN ~res ELSE res           \* evaluation of this check stops here
           lastAlt == ai = Len(chk.queries)
       IN /\ (IF Rec[l].owner > 1000000 THEN AZ ELSE Rec[l].owner) = owner
          /\ Rec[l].index = i - 1
          /\ SetUsize(Rec[l].trusted) = ElemTrust(P, q.scope, owner)
          /\ Rec[l].res = res
          /\ IF stop \/ lastAlt
             THEN /\ phase' = ph /\ ci' = i + 1 /\ ai' = 1 /\ blk' = b
             ELSE /\ phase' = ph /\ ci' = i /\ ai' = ai + 1 /\ blk' = b
    /\ UNCHANGED <<P, W>>

TDecisionPolicy ==
    /\ IsEvent("decision") /\ Rec[l].what = "policy"
    /\ Pos[1] = "policies"
    /\ LET i == Pos[2]
           pol == P.authz.policies[i]
           q == pol.queries[ai]
           res == MatchOne(q, W, ElemTrust(P, q.scope, AZ))
           lastAlt == ai = Len(pol.queries)
       IN /\ Rec[l].index = i - 1
          /\ SetUsize(Rec[l].trusted) = ElemTrust(P, q.scope, AZ)
          /\ Rec[l].res = res
          /\ IF res THEN /\ phase' = "blocks" /\ ci' = 1 /\ ai' = 1 /\ blk' = 1      \* first match ends the policy scan
             ELSE IF lastAlt THEN /\ phase' = "policies" /\ ci' = i + 1 /\ ai' = 1 /\ blk' = 0
             ELSE /\ phase' = "policies" /\ ci' = i /\ ai' = ai + 1 /\ blk' = 0
    /\ UNCHANGED <<P, W>>

\* the final answer: every check and policy has been visited, and the result is Auth(P)
TResult ==
    /\ IsEvent("result")
    /\ Pos[1] = "done"
    /\ LET a == Auth(P) IN
       /\ Rec[l].ok = a.ok
       /\ Rec[l].policy = a.policy
       /\ (a.policy # "none") => Rec[l].index = a.index
       /\ {<<IF f.owner > 1000000 THEN AZ ELSE f.owner, f.idx>> : f \in ToSet(Rec[l].failed)} = a.failed
    /\ phase' = "done" /\ UNCHANGED <<P, W, ci, ai, blk>>

TraceNext == TProgram \/ TDecisionCheck \/ TDecisionPolicy \/ TResult
TraceSpec == TraceInit /\ [][TraceNext]_tvars

TraceAccepted ==
    LET d == TLCGet("stats").diameter IN
    IF d - 1 = Len(Rec) THEN TRUE
    ELSE /\ PrintT(<<"TRACE-REJECTED", d, ToJson(Rec[d])>>)
         /\ FALSE
VarsX == {"$x", "$y"}
NoInts == [i \in {} |-> 0]
=============================================================================
