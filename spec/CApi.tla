-------------------------------- MODULE CApi --------------------------------
(***************************************************************************)
(* C19: the C API as a state machine over a handle table and an error      *)
(* channel.  Every entry point is the corresponding Rust operation on the  *)
(* object behind the handle, plus:                                         *)
(*   - a null handle or an out-of-range index is reported through the      *)
(*     error channel (error return value, error slot set);                 *)
(*   - a `*_size` call announces exactly the bytes `*_serialize` writes;   *)
(*   - key (de)serialisation is inverse for both algorithms;               *)
(*   - no call aborts: every call has an outcome (totality).               *)
(* A scenario is a sequence of calls after a fixed setup (a 2-block token  *)
(* whose root key uses `alg` and whose appended block is signed for a next *)
(* key of `balg`: the seal signature is made with that key).               *)
(***************************************************************************)
EXTENDS Naturals, Sequences, TLC, Json

CONSTANTS ExportOn, MaxCalls

Algs == {"ed", "p256"}
NBlocks == 2

Call(name, handle, idx) == [name |-> name, handle |-> handle, idx |-> idx]

\* calls taking a single handle that may be null
\* authorize_fail_*: authorization of a token whose block check fails, under an authorizer with a failing check of
\* its own, with a matching policy (Unauthorized) or without one (NoMatchingPolicy): the call fails and every
\* error detail accessor (count, check id, block id, rule, is_authorizer) reports what the Rust error carries
HandleCalls == {"authorize_fail_policy", "authorize_fail_nopolicy", "serialize", "serialize_sealed", "block_count", "authorize", "print", "public_key_roundtrip",
                "key_pair_roundtrip", "from_bytes", "append_block", "authorizer_from_token", "builder_build"}
IndexCalls == {"block_context", "print_block_source"}
\* calls whose handle is the token: they can also be made on a SEALED token (the sealed serialization read back)
TokenCalls == {"serialize", "serialize_sealed", "block_count", "authorize", "print", "append_block", "authorizer_from_token"}
\* a sealed token can neither be extended nor sealed again: the Rust operation fails, and so does the C call
RefusedOnSealed == {"append_block", "serialize_sealed"}
Calls ==
    {Call(n, h, 0) : n \in HandleCalls, h \in {"live", "null"}}
    \cup {Call(n, "sealed", 0) : n \in TokenCalls}
    \cup {Call(n, h, i) : n \in IndexCalls, i \in 0..(NBlocks + 1), h \in {"live", "sealed"}}
    \cup {Call(n, "null", 0) : n \in IndexCalls}

\* outcome of a call: "value" (equal to the Rust operation's result) or "error"
Outcome(c) ==
    IF c.handle = "null" THEN "error"
    ELSE IF c.name \in IndexCalls /\ c.idx >= NBlocks THEN "error"
    ELSE IF c.handle = "sealed" /\ c.name \in RefusedOnSealed THEN "error"
    ELSE IF c.name \in {"authorize_fail_policy", "authorize_fail_nopolicy"} THEN "error"
    ELSE "value"

\* what the error slot holds after the call
ErrorAfter(c, before) ==
    IF Outcome(c) = "error"
    THEN (IF c.handle = "null" THEN "InvalidArgument" ELSE IF c.name \in IndexCalls THEN "InvalidBlockId"
          ELSE IF c.name \in {"authorize_fail_policy", "authorize_fail_nopolicy"} THEN "Logic" ELSE "Sealed")
    ELSE before                                  \* a successful call leaves the slot alone

VARIABLES alg, balg, calls, err, outs
vars == <<alg, balg, calls, err, outs>>

Init == alg \in Algs /\ balg \in Algs /\ calls = <<>> /\ err = "none" /\ outs = <<>>

Next ==
    /\ Len(calls) < MaxCalls
    /\ \E c \in Calls :
         /\ calls' = Append(calls, c)
         /\ outs' = Append(outs, [out |-> Outcome(c), err |-> ErrorAfter(c, err)])
         /\ err' = ErrorAfter(c, err)
    /\ UNCHANGED <<alg, balg>>

Spec == Init /\ [][Next]_vars

\* the error slot is set exactly when some call failed, and names the last failure
ErrorChannelSound ==
    (err = "none") <=> (\A i \in 1..Len(outs) : outs[i].out = "value")
Total == \A i \in 1..Len(calls) : Outcome(calls[i]) \in {"value", "error"}

Export ==
    (ExportOn /\ Len(calls) = MaxCalls) =>
        PrintT(<<"CAPI", ToJson([alg |-> alg, balg |-> balg, calls |-> calls, outs |-> outs])>>)
=============================================================================
