------------------------------- MODULE Chain -------------------------------
(***************************************************************************)
(* The Biscuit token container as an abstract data type over IDEAL         *)
(* signatures: blocks, key chain, proofs, the honest API operations        *)
(* (build / append / append third party / seal), the signature-version     *)
(* rule, chain verification, and a Dolev-Yao style adversary.              *)
(*                                                                         *)
(* Written from the Biscuit specification (signed payload layouts v0/v1,   *)
(* external signature layout, seal layout), NOT from crypto/mod.rs.        *)
(*                                                                         *)
(* All values are records/sequences of strings and naturals so that they   *)
(* can be exported with ToJson and concretised by the Rust harness         *)
(* (harness/src/layout.rs): a key record -> a real key pair, a payload id  *)
(* -> real block bytes, a signature record -> the real (deterministic)     *)
(* signature of the concretised message under the signer's secret.         *)
(***************************************************************************)
EXTENDS Naturals, Sequences, FiniteSets

CONSTANTS PayloadVersion   \* function: payload id -> declared Datalog version (3..6)

Payloads == DOMAIN PayloadVersion
Algs     == {"ed", "p256"}

Key(id, alg) == [id |-> id, alg |-> alg]
NoKey        == Key("none", "none")

(***************************************************************************)
(* Ideal signatures.  A signature is the triple (signer, message, form).   *)
(* `form` models the two byte encodings (r,s) / (r,n-s) of an ECDSA        *)
(* signature: both verify.  For ed25519 strict verification only form 0    *)
(* (canonical S) verifies.  Forms 2 and 3 are the signature bytes with one *)
(* byte appended / removed: a signature of the wrong length never verifies.*)
(* Form 4 is the same signature value in another standard container       *)
(* (ECDSA: fixed-size r||s instead of DER; ed25519: DER OCTET STRING       *)
(* wrapping): only the one wire encoding the specification fixes verifies. *)
(***************************************************************************)
Sig(k, m) == [signer |-> k, msg |-> m, form |-> 0]

VerifySig(pk, m, s) ==
    /\ s.signer = pk
    /\ s.msg = m
    /\ (s.form = 0 \/ (s.form = 1 /\ pk.alg = "p256"))

(***************************************************************************)
(* Signed messages.  One record shape for every layout (TLC cannot compare *)
(* values of different shapes); optional signatures are sequences of       *)
(* length 0 or 1.                                                          *)
(*  v0   : payload ++ [ext sig] ++ alg ++ next key                         *)
(*  v1   : \0BLOCK\0 \0VERSION\0 ver \0PAYLOAD\0 payload \0ALGORITHM\0 alg *)
(*         \0NEXTKEY\0 key [\0PREVSIG\0 prev] [\0EXTERNALSIG\0 ext]        *)
(*  ext  : \0EXTERNAL\0 \0VERSION\0 ver \0PAYLOAD\0 payload \0PREVSIG\0 p  *)
(*  seal : payload ++ alg ++ next key ++ signature (of the last block)     *)
(*  ext0 : payload ++ alg ++ key of the block signer  (the DEPRECATED external*)
(*         signature layout, only accepted by unsafe_deprecated_deserialize)*)
(*                                                                         *)
(* The v0 layout has no delimiter between the payload and the external     *)
(* signature: what is signed is the FLAT sequence of byte chunks, not the  *)
(* (payload, signature) pair.  `body` is that sequence for v0 messages     *)
(* (and <<>> for every other layout, whose fields are delimited).          *)
(***************************************************************************)
MsgB(tag, ver, payload, nk, prev, ext, body) ==
    [tag |-> tag, ver |-> ver, payload |-> payload, nk |-> nk,
     prev |-> prev, ext |-> ext, body |-> body]
Msg(tag, ver, payload, nk, prev, ext) == MsgB(tag, ver, payload, nk, prev, ext, <<>>)

ExtSigSeq(ext) == IF ext = <<>> THEN <<>> ELSE <<ext[1].sig>>

\* payloads whose bytes are another payload's bytes followed by one more chunk
\* (protobuf: the same block with one more field at the end)
Split == [P12 |-> <<"P1", "X2">>]
Parts(p) == IF p \in DOMAIN Split THEN Split[p] ELSE <<p>>

\* bytes that are NOT a signature (the chunk x) sitting in a signature field
RawSig(x) == [signer |-> [id |-> "none", alg |-> "none"], msg |-> Msg("raw", 0, x, [id |-> "none", alg |-> "none"], <<>>, <<>>), form |-> 0]
IsRaw(s) == s.msg.tag = "raw"

PartChunk(x) == [part |-> x]
SigChunk(s)  == IF IsRaw(s) THEN [part |-> s.msg.payload] ELSE [sig |-> s]
V0Body(p, ext) ==
    [i \in 1..Len(Parts(p)) |-> PartChunk(Parts(p)[i])]
    \o (IF ext = <<>> THEN <<>> ELSE <<SigChunk(ext[1].sig)>>)

BlockMsgOf(ver, p, nk, ext, prevSeq) ==
    IF ver = 0
    THEN MsgB("v0", 0, "-", nk, <<>>, <<>>, V0Body(p, ext))
    ELSE Msg("v1", ver, p, nk, prevSeq, ExtSigSeq(ext))

BlockMsg(b, prevSeq) == BlockMsgOf(b.ver, b.payload, b.nk, b.ext, prevSeq)

ExtMsg(ver, payload, prevSeq) == Msg("ext", ver, payload, NoKey, prevSeq, <<>>)

\* deprecated external signature: binds the payload to the KEY that signs the block, not to the previous signature
ExtMsgLegacy(payload, signerKey) == Msg("ext0", 0, payload, signerKey, <<>>, <<>>)

SealMsg(b) == Msg("seal", 0, b.payload, b.nk, <<b.sig>>, <<>>)

(***************************************************************************)
(* Container.                                                              *)
(***************************************************************************)
Block(p, nk, sig, ext, ver) ==
    [payload |-> p, nk |-> nk, sig |-> sig, ext |-> ext, ver |-> ver]

SecretProof(k) == [kind |-> "secret", key |-> k, sig |-> <<>>]
SealProof(s)   == [kind |-> "seal", key |-> NoKey, sig |-> <<s>>]

\* a block signed by `signer` over the layout of its declared version
SignedBlock(signer, p, nk, ext, ver, prevSeq) ==
    Block(p, nk, Sig(signer, BlockMsgOf(ver, p, nk, ext, prevSeq)), ext, ver)

Token(rkid, blocks, proof) == [rkid |-> rkid, blocks |-> blocks, proof |-> proof]

Last(t)     == t.blocks[Len(t.blocks)]
IsSealed(t) == t.proof.kind = "seal"

(***************************************************************************)
(* Chain verification (Biscuit specification, "Verifying" section).        *)
(***************************************************************************)
SignerOf(t, root, i) == IF i = 1 THEN root ELSE t.blocks[i-1].nk
PrevSeq(t, i)        == IF i = 1 THEN <<>> ELSE <<t.blocks[i-1].sig>>

BlockOK(t, root, i) ==
    LET b == t.blocks[i] IN
    /\ b.ver \in {0, 1}
    /\ (i = 1) => b.ext = <<>>              \* authority never carries an external signature
    /\ b.ext # <<>> => b.ver = 1             \* third-party blocks need the chained scheme
    /\ VerifySig(SignerOf(t, root, i), BlockMsg(b, PrevSeq(t, i)), b.sig)
    /\ b.ext # <<>> =>
          VerifySig(b.ext[1].key, ExtMsg(b.ver, b.payload, PrevSeq(t, i)), b.ext[1].sig)

ProofOK(t) ==
    \/ /\ t.proof.kind = "secret"
       /\ t.proof.key = Last(t).nk
    \/ /\ t.proof.kind = "seal"
       /\ VerifySig(Last(t).nk, SealMsg(Last(t)), t.proof.sig[1])

Verify(t, root) ==
    /\ Len(t.blocks) >= 1
    /\ \A i \in 1..Len(t.blocks) : BlockOK(t, root, i)
    /\ ProofOK(t)

(***************************************************************************)
(* Acceptance modes.  Besides the standard entry points the library keeps  *)
(* two that admit the deprecated third-party layout:                       *)
(*   "std"    Biscuit::from, UnverifiedBiscuit::from + verify              *)
(*   "legacy" Biscuit::unsafe_deprecated_deserialize                       *)
(*            (a version-0 block may carry an external signature, which is *)
(*            then checked with the deprecated layout)                     *)
(*   "mixed"  UnverifiedBiscuit::unsafe_deprecated_deserialize + verify    *)
(*            (decoded like "legacy", verified like "std")                 *)
(* In every mode an external signature that is present MUST verify.        *)
(***************************************************************************)
Modes == {"std", "legacy", "mixed"}

BlockOKMode(t, root, i, mode) ==
    LET b == t.blocks[i] IN
    /\ b.ver \in {0, 1}
    /\ (i = 1) => b.ext = <<>>
    /\ (mode = "std" /\ b.ext # <<>>) => b.ver = 1
    /\ VerifySig(SignerOf(t, root, i), BlockMsg(b, PrevSeq(t, i)), b.sig)
    /\ b.ext # <<>> =>
          VerifySig(b.ext[1].key,
                    IF b.ver = 0 /\ mode = "legacy"
                    THEN ExtMsgLegacy(b.payload, SignerOf(t, root, i))
                    ELSE ExtMsg(b.ver, b.payload, PrevSeq(t, i)),
                    b.ext[1].sig)

VerifyMode(t, root, mode) ==
    /\ Len(t.blocks) >= 1
    /\ \A i \in 1..Len(t.blocks) : BlockOKMode(t, root, i, mode)
    /\ ProofOK(t)

\* the standard mode is the one the rest of the specification talks about
StdIsVerify(t, root) == VerifyMode(t, root, "std") = Verify(t, root)

(***************************************************************************)
(* Signature version rule (chained scheme = 1) and honest operations.      *)
(***************************************************************************)
MaxOf(S) == IF S = {} THEN 0 ELSE CHOOSE x \in S : \A y \in S : y <= x

SigVersion(signer, nk, hasExt, dlVersion, prevVers) ==
    IF hasExt \/ dlVersion >= 6 \/ signer.alg # "ed" \/ nk.alg # "ed"
    THEN 1
    ELSE MaxOf(prevVers)

Versions(t) == {t.blocks[i].ver : i \in 1..Len(t.blocks)}

BuildTok(root, nk, p, rkid) ==
    LET ver == SigVersion(root, nk, FALSE, PayloadVersion[p], {})
    IN Token(rkid, <<SignedBlock(root, p, nk, <<>>, ver, <<>>)>>, SecretProof(nk))

CanExtend(t) == t.proof.kind = "secret"

AppendTok(t, nk, p) ==
    LET signer == t.proof.key
        ver == SigVersion(signer, nk, FALSE, PayloadVersion[p], Versions(t))
    IN Token(t.rkid,
             Append(t.blocks, SignedBlock(signer, p, nk, <<>>, ver, <<Last(t).sig>>)),
             SecretProof(nk))

\* the third party: sees the previous signature (request), signs payload + it
ThirdPartySig(ek, p, prevSig) == Sig(ek, ExtMsg(1, p, <<prevSig>>))

\* third-party append: append_serialized ignores the payload's Datalog version
AppendTPTok(t, nk, p, ek, esig) ==
    LET signer == t.proof.key
        ext == <<[key |-> ek, sig |-> esig]>>
    IN Token(t.rkid,
             Append(t.blocks, SignedBlock(signer, p, nk, ext, 1, <<Last(t).sig>>)),
             SecretProof(nk))

SealTok(t) == Token(t.rkid, t.blocks, SealProof(Sig(t.proof.key, SealMsg(Last(t)))))

RevIds(t) == [i \in 1..Len(t.blocks) |-> t.blocks[i].sig]

(***************************************************************************)
(* Equality of signed content (ignores the unauthenticated root key id).   *)
(***************************************************************************)
SameSigned(a, b) == a.blocks = b.blocks /\ a.proof = b.proof

StripForm(s) == [s EXCEPT !.form = 0]
=============================================================================
