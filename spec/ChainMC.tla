------------------------------ MODULE ChainMC ------------------------------
(***************************************************************************)
(* State machine over Chain: honest parties run API operations producing   *)
(* tokens (every intermediate token is kept, as the API is functional);    *)
(* then a Dolev-Yao adversary who has seen a subset `known` of them        *)
(* (and therefore holds the proof secrets of the unsealed ones) assembles  *)
(* one token `forged` and presents it under a root key.                    *)
(*                                                                         *)
(* Checked: Sound (C01), Complete (C02), SealedFinal (C08), revocation-id  *)
(* action properties (C15), signature-version monotonicity (C16).          *)
(* Every terminal state is exported as one REPLAY line and replayed on the *)
(* real library by the harness (vh chain-replay).                          *)
(***************************************************************************)
EXTENDS Chain, TLC, Json

CONSTANTS MaxOps,        \* number of honest operations
          MaxBlocks,     \* longest honest token
          MaxToks,       \* number of independent tokens (Build ops)
          RootAlgs, KeyAlgs, ExtAlgs,   \* subsets of Algs
          FPayloads, TPayloads,         \* first-party / third-party payload ids
          Mutations,     \* set of adversary action names enabled
          ExportOn,      \* TRUE: print replay lines
          OnlySealedBase, \* TRUE: the adversary only mutates sealed tokens
          SampleN        \* export 1 of SampleN rejected adversary tokens

VARIABLES toks,    \* sequence of [tok, root, from]  (honest tokens, in creation order)
          log,     \* sequence of honest operations (one per element of toks, plus refused ops)
          nfresh,  \* number of fresh block keys drawn so far
          phase,   \* "honest" | "done"
          forged   \* the adversary's token: [tok, root, mut, known]

vars == <<toks, log, nfresh, phase, forged>>

KeyIds   == <<"K1", "K2", "K3", "K4", "K5", "K6", "K7", "K8">>
FreshKey(alg) == Key(KeyIds[nfresh + 1], alg)
RootKey(alg)  == Key("R", alg)
ExtKey(alg)   == Key("E", alg)
AdvKeys       == {Key("A", "ed"), Key("A", "p256")}
AdvExtKeys    == {Key("AE", "ed")}

NoTok == Token(0, <<>>, SecretProof(NoKey))
NoMut == [kind |-> "none", t |-> 0, b |-> 0, c |-> 0, arg |-> "none"]

Init ==
    /\ toks = <<>>
    /\ log = <<>>
    /\ nfresh = 0
    /\ phase = "honest"
    /\ forged = [tok |-> NoTok, root |-> NoKey, prov |-> <<NoKey, NoKey>>, mut |-> NoMut, known |-> {}]

Op(name, from, root, nk, p, ek, rkid) ==
    [op |-> name, from |-> from, root |-> root, nk |-> nk, p |-> p, ek |-> ek, rkid |-> rkid]

NBuilds == Cardinality({i \in 1..Len(toks) : toks[i].from = 0})

HBuild ==
    /\ NBuilds < MaxToks
    /\ \E ra \in RootAlgs, a \in KeyAlgs, p \in FPayloads, rkid \in {0, 1} :
        LET root == RootKey(ra)  nk == FreshKey(a) IN
        /\ rkid = 1 => NBuilds = 0          \* root key id is an unauthenticated hint: one token carries it
        /\ toks' = Append(toks, [tok |-> BuildTok(root, nk, p, rkid), root |-> root, from |-> 0])
        /\ log' = Append(log, Op("build", 0, root, nk, p, NoKey, rkid))
        /\ nfresh' = nfresh + 1

HAppend ==
    \E i \in 1..Len(toks), a \in KeyAlgs, p \in FPayloads :
        LET t == toks[i].tok  nk == FreshKey(a) IN
        /\ CanExtend(t) /\ Len(t.blocks) < MaxBlocks
        /\ toks' = Append(toks, [tok |-> AppendTok(t, nk, p), root |-> toks[i].root, from |-> i])
        /\ log' = Append(log, Op("append", i, toks[i].root, nk, p, NoKey, 0))
        /\ nfresh' = nfresh + 1

HAppendTP ==
    \E i \in 1..Len(toks), a \in KeyAlgs, ea \in ExtAlgs, p \in TPayloads :
        LET t == toks[i].tok  nk == FreshKey(a)  ek == ExtKey(ea) IN
        /\ CanExtend(t) /\ Len(t.blocks) < MaxBlocks
        /\ toks' = Append(toks, [tok |-> AppendTPTok(t, nk, p, ek, ThirdPartySig(ek, p, Last(t).sig)),
                                 root |-> toks[i].root, from |-> i])
        /\ log' = Append(log, Op("append3p", i, toks[i].root, nk, p, ek, 0))
        /\ nfresh' = nfresh + 1

HSeal ==
    \E i \in 1..Len(toks) :
        LET t == toks[i].tok IN
        /\ CanExtend(t)
        /\ \A j \in 1..Len(toks) : ~(toks[j].from = i /\ IsSealed(toks[j].tok))   \* seal once
        /\ toks' = Append(toks, [tok |-> SealTok(t), root |-> toks[i].root, from |-> i])
        /\ log' = Append(log, Op("seal", i, toks[i].root, NoKey, "none", NoKey, 0))
        /\ UNCHANGED nfresh

Honest ==
    /\ phase = "honest"
    /\ Len(toks) < MaxOps
    /\ (HBuild \/ HAppend \/ HAppendTP \/ HSeal)
    /\ UNCHANGED <<phase, forged>>

(***************************************************************************)
(* Adversary.                                                              *)
(***************************************************************************)
KnownSets == {S \in SUBSET (1..Len(toks)) : S # {} /\ Cardinality(S) <= 2}

KTok(i) == toks[i].tok
BlocksOf(K)  == UNION {{KTok(i).blocks[j] : j \in 1..Len(KTok(i).blocks)} : i \in K}
BlockSigs(K) == {b.sig : b \in BlocksOf(K)}
ExtSigs(K)   == {b.ext[1].sig : b \in {x \in BlocksOf(K) : x.ext # <<>>}}
SealSigs(K)  == {KTok(i).proof.sig[1] : i \in {x \in K : IsSealed(KTok(x))}}
SigPool(K)   == BlockSigs(K) \cup ExtSigs(K) \cup SealSigs(K)
Secrets(K)   == AdvKeys \cup AdvExtKeys \cup {KTok(i).proof.key : i \in {x \in K : ~IsSealed(KTok(x))}}
PubKeys(K)   == {b.nk : b \in BlocksOf(K)} \cup {toks[i].root : i \in K}
                 \cup {b.ext[1].key : b \in {x \in BlocksOf(K) : x.ext # <<>>}} \cup AdvKeys
ProofPool(K) == {KTok(i).proof : i \in K} \cup {SecretProof(k) : k \in Secrets(K)}
ExtPool(K)   == {b.ext : b \in BlocksOf(K)}   \* includes <<>> when some block has none

Mut(kind, t, b, c, arg) == [kind |-> kind, t |-> t, b |-> b, c |-> c, arg |-> arg]

SetBlock(t, j, nb) == [t EXCEPT !.blocks[j] = nb]
RemoveAt(s, j) == SubSeq(s, 1, j-1) \o SubSeq(s, j+1, Len(s))

\* the candidate set of (token, descriptor) pairs for one base token i of K
Candidates(K, i) ==
    LET t == KTok(i)  n == Len(t.blocks) IN
    (IF "SetPayload" \in Mutations THEN
       {<<SetBlock(t, j, [t.blocks[j] EXCEPT !.payload = p]), Mut("SetPayload", i, j, 0, p)>> :
            j \in 1..n, p \in (FPayloads \cup TPayloads)} ELSE {})
    \cup
    (IF "SetNextKey" \in Mutations THEN
       {<<SetBlock(t, j, [t.blocks[j] EXCEPT !.nk = k]), Mut("SetNextKey", i, j, 0, k.id)>> :
            j \in 1..n, k \in PubKeys(K)} ELSE {})
    \cup
    (IF "SetSig" \in Mutations THEN
       {<<SetBlock(t, j, [t.blocks[j] EXCEPT !.sig = s]), Mut("SetSig", i, j, 0, s.msg.tag)>> :
            j \in 1..n, s \in SigPool(K)} ELSE {})
    \cup
    (IF "SetVer" \in Mutations THEN
       {<<SetBlock(t, j, [t.blocks[j] EXCEPT !.ver = v]), Mut("SetVer", i, j, v, "ver")>> :
            j \in 1..n, v \in {0, 1, 2}} ELSE {})
    \cup
    (IF "SetExt" \in Mutations THEN
       {<<SetBlock(t, j, [t.blocks[j] EXCEPT !.ext = e]), Mut("SetExt", i, j, Len(e), "ext")>> :
            j \in 1..n, e \in ExtPool(K) \cup {<<>>}}
       \cup
       {<<SetBlock(t, j, [t.blocks[j] EXCEPT !.ext = <<[key |-> k, sig |-> t.blocks[j].ext[1].sig]>>]),
          Mut("SetExtKey", i, j, 0, k.id)>> :
            j \in {x \in 1..n : t.blocks[x].ext # <<>>}, k \in PubKeys(K) \cup AdvExtKeys}
       \cup
       {<<SetBlock(t, j, [t.blocks[j] EXCEPT !.ext = <<[key |-> t.blocks[j].ext[1].key, sig |-> s]>>]),
          Mut("SetExtSig", i, j, 0, s.msg.tag)>> :
            j \in {x \in 1..n : t.blocks[x].ext # <<>>}, s \in SigPool(K)}
     ELSE {})
    \cup
    (IF "Reorder" \in Mutations THEN
       {<<[t EXCEPT !.blocks = [x \in 1..n |-> IF x = j THEN t.blocks[k] ELSE IF x = k THEN t.blocks[j] ELSE t.blocks[x]]],
          Mut("Swap", i, j, k, "swap")>> : j \in 1..n, k \in 1..n}
       \cup
       {<<[t EXCEPT !.blocks = RemoveAt(t.blocks, j)], Mut("Drop", i, j, 0, "drop")>> : j \in {x \in 1..n : n > 1}}
       \cup
       {<<[t EXCEPT !.blocks = SubSeq(t.blocks, 1, j) \o SubSeq(t.blocks, j, n)], Mut("Dup", i, j, 0, "dup")>> : j \in 1..n}
     ELSE {})
    \cup
    (IF "Truncate" \in Mutations THEN
       {<<[t EXCEPT !.blocks = SubSeq(t.blocks, 1, j), !.proof = pr], Mut("Truncate", i, j, 0, pr.kind)>> :
            j \in 1..n, pr \in ProofPool(K)}
       \cup
       \* truncate and seal with a known secret
       {<<[t EXCEPT !.blocks = SubSeq(t.blocks, 1, j),
                    !.proof = SealProof(Sig(k, SealMsg(t.blocks[j])))], Mut("TruncSeal", i, j, 0, k.id)>> :
            j \in 1..n, k \in Secrets(K)}
     ELSE {})
    \cup
    (IF "Splice" \in Mutations THEN
       UNION {
         {<<[t EXCEPT !.blocks = SubSeq(t.blocks, 1, j) \o SubSeq(KTok(i2).blocks, k, Len(KTok(i2).blocks)),
                      !.proof = KTok(i2).proof], Mut("Splice", i, j, k, "splice")>> :
              j \in 0..n, k \in 1..Len(KTok(i2).blocks)} : i2 \in K \ {i}}
     ELSE {})
    \cup
    (IF "Malleate" \in Mutations THEN
       {<<SetBlock(t, j, [t.blocks[j] EXCEPT !.sig.form = f]), Mut("Malleate", i, j, f, t.blocks[j].sig.signer.alg)>> :
            j \in 1..n, f \in 1..4}
       \cup
       {<<SetBlock(t, j, [t.blocks[j] EXCEPT !.ext[1].sig.form = f]), Mut("MalleateExt", i, j, f, t.blocks[j].ext[1].key.alg)>> :
            j \in {x \in 1..n : t.blocks[x].ext # <<>>}, f \in 1..4}
       \cup
       (IF IsSealed(t) THEN {<<[t EXCEPT !.proof.sig[1].form = f], Mut("MalleateSeal", i, n, f, t.proof.sig[1].signer.alg)>> : f \in 1..4} ELSE {})
     ELSE {})
    \cup
    (IF "Forge" \in Mutations THEN
       \* replace block j by a block freshly signed with a known secret (every layout version)
       UNION {
         {<<SetBlock(t, j, SignedBlock(k, p, nk, t.blocks[j].ext, v, PrevSeq(t, j))),
            Mut("ForgeBlock", i, j, v, k.id)>> :
              k \in Secrets(K), p \in FPayloads, nk \in {t.blocks[j].nk} \cup AdvKeys, v \in {0, 1}} : j \in 1..n}
       \cup
       \* legitimate attenuation by the adversary, then optionally seal
       {<<[t EXCEPT !.blocks = Append(t.blocks, SignedBlock(k, p, nk, <<>>, v, <<Last(t).sig>>)),
                    !.proof = SecretProof(nk)], Mut("AdvAppend", i, n + 1, v, k.id)>> :
            k \in Secrets(K), p \in FPayloads, nk \in AdvKeys, v \in {0, 1}}
       \cup
       {<<[t EXCEPT !.proof = SealProof(Sig(k, SealMsg(Last(t))))], Mut("AdvSeal", i, n, 0, k.id)>> :
            k \in Secrets(K)}
       \cup
       \* re-sign an external signature with the adversary's external key
       {<<SetBlock(t, j, [t.blocks[j] EXCEPT !.ext = <<[key |-> ek, sig |-> ThirdPartySig(ek, t.blocks[j].payload, t.blocks[j-1].sig)]>>]),
          Mut("ForgeExt", i, j, 0, ek.id)>> :
            j \in 2..n, ek \in AdvExtKeys}
     ELSE {})
    \cup
    (IF "Resplit" \in Mutations THEN
       \* v0 only: cut the payload at a chunk boundary and present the tail as the "external signature" of a
       \* key of the adversary's choice - the signed bytes of the block are unchanged
       {<<SetBlock(t, j, [t.blocks[j] EXCEPT !.payload = Split[@][1],
                                              !.ext = <<[key |-> k, sig |-> RawSig(Split[t.blocks[j].payload][2])]>>]),
          Mut("Resplit", i, j, 0, k.id)>> :
            j \in {x \in 2..n : t.blocks[x].payload \in DOMAIN Split /\ t.blocks[x].ext = <<>>}, k \in AdvExtKeys \cup PubKeys(K)}
     ELSE {})
    \cup
    (IF "Proof" \in Mutations THEN
       {<<[t EXCEPT !.proof = pr], Mut("SetProof", i, 0, 0, pr.kind)>> : pr \in ProofPool(K)}
       \cup {<<[t EXCEPT !.rkid = 1 - @], Mut("SetRootKeyId", i, 0, 0, "rkid")>>}
     ELSE {})
    \cup
    (IF "Identity" \in Mutations THEN {<<t, Mut("Identity", i, 0, 0, "id")>>} ELSE {})

\* restricts the base token of the mutation (C08 looks at sealed tokens only)
BaseFilter(t) == (OnlySealedBase => IsSealed(t))

Roots(K) == {toks[i].root : i \in K} \cup {RootKey(a) : a \in RootAlgs} \cup {Key("A", "ed")}

\* The verifier is configured with a ROOT KEY PROVIDER: a function from the token's root key id
\* (absent = 0, or 1) to a root key, or NoKey when it knows no key for that id.  The id is an
\* unauthenticated hint: it selects the key, and the token must then verify under THAT key.
\* prov[1] answers "no id", prov[2] answers id 1.
Providers(K) == {<<a, b>> : a \in Roots(K) \cup {NoKey}, b \in Roots(K) \cup {NoKey}}

Adversary ==
    /\ phase = "honest"
    /\ Len(toks) >= 1
    /\ \E K \in KnownSets : \E i \in K : \E c \in Candidates(K, i) : \E pv \in Providers(K) :
         /\ Len(c[1].blocks) >= 1
         /\ (c[1] = KTok(i)) => c[2].kind = "Identity"     \* no-op mutations are the identity case
         /\ BaseFilter(KTok(i))
         \* other providers than "always the issuing root": present the unmodified token, or only flip the hint
         /\ (pv # <<toks[i].root, toks[i].root>>) => c[2].kind \in {"Identity", "SetRootKeyId"}
         /\ forged' = [tok |-> c[1], root |-> pv[c[1].rkid + 1], prov |-> pv, mut |-> c[2], known |-> K]
    /\ phase' = "done"
    /\ UNCHANGED <<toks, log, nfresh>>

Next == Honest \/ Adversary

Spec == Init /\ [][Next]_vars

(***************************************************************************)
(* Authenticity: the forged token is an honest token minted under the      *)
(* presented root, or a legitimate attenuation / seal of a KNOWN unsealed  *)
(* one made with keys whose secrets the adversary holds.                   *)
(***************************************************************************)
IsPrefixOf(s, t) == Len(s) <= Len(t) /\ SubSeq(t, 1, Len(s)) = s

AuthenticVia(f, h, K, hKnown) ==
    \/ /\ f.blocks = h.blocks
       /\ \/ f.proof = h.proof
          \/ /\ hKnown /\ CanExtend(h) /\ f.proof.kind = "seal"
             /\ StripForm(f.proof.sig[1]) = Sig(h.proof.key, SealMsg(Last(h)))
    \/ /\ hKnown /\ CanExtend(h)
       /\ Len(f.blocks) > Len(h.blocks)
       /\ IsPrefixOf(h.blocks, f.blocks)
       /\ \A j \in (Len(h.blocks)+1)..Len(f.blocks) : f.blocks[j].nk \in Secrets(K)

Authentic(f, r, K) ==
    \E i \in 1..Len(toks) : toks[i].root = r /\ AuthenticVia(f, KTok(i), K, i \in K)

Accepted == phase = "done" /\ forged.root # NoKey /\ Verify(forged.tok, forged.root)

\* The property as stated (C01).  TLC refutes it for the design the library
\* implements; the refutations are the named weaknesses below.
Sound == Accepted => Authentic(forged.tok, forged.root, forged.known)

ProofModForm(p) == IF p.kind = "seal" THEN [p EXCEPT !.sig[1] = StripForm(@)] ELSE p

SameBlocksModForm(a, b) ==
    /\ Len(a.blocks) = Len(b.blocks)
    /\ \A j \in 1..Len(a.blocks) :
          [a.blocks[j] EXCEPT !.sig = StripForm(@)] = [b.blocks[j] EXCEPT !.sig = StripForm(@)]

\* W-ECDSA: an ECDSA signature that no later signature covers (last block of an
\* unsealed token, or the seal itself) can be re-encoded (r,s) -> (r,n-s).
EcdsaReencoded(f, r) ==
    \E i \in 1..Len(toks) :
        /\ toks[i].root = r
        /\ SameBlocksModForm(f, KTok(i))
        /\ ProofModForm(f.proof) = ProofModForm(KTok(i).proof)
        /\ ~SameSigned(f, KTok(i))

\* W-V0: a version-0 block signature covers (payload, next key) only - not the
\* blocks before it.  A holder of an EARLIER unsealed token can therefore re-sign
\* the blocks in between and keep a later honest version-0 block.
HonestlyPlaced(f, j) ==
    \E i \in 1..Len(toks) : \E k \in 1..Len(KTok(i).blocks) :
        /\ KTok(i).blocks[k] = f.blocks[j]
        /\ k = j
        /\ SubSeq(KTok(i).blocks, 1, k - 1) = SubSeq(f.blocks, 1, j - 1)

IsHonestBlock(b) == \E i \in 1..Len(toks) : \E k \in 1..Len(KTok(i).blocks) : KTok(i).blocks[k] = b

V0Respliced(f) ==
    \E j \in 2..Len(f.blocks) :
        /\ f.blocks[j].ver = 0
        /\ IsHonestBlock(f.blocks[j])
        /\ ~HonestlyPlaced(f, j)

Weakness ==
    IF ~Accepted \/ Authentic(forged.tok, forged.root, forged.known) THEN "none"
    ELSE IF EcdsaReencoded(forged.tok, forged.root) THEN "ecdsa-reencoding"
    ELSE IF V0Respliced(forged.tok) THEN "v0-resplice"
    ELSE "UNEXPLAINED"

SoundModuloKnown == Weakness # "UNEXPLAINED"

\* the deprecated entry points: acceptance in each mode
AcceptedIn(mode) == phase = "done" /\ forged.root # NoKey /\ VerifyMode(forged.tok, forged.root, mode)
ModesAgreeOnStd == (phase = "done" /\ forged.root # NoKey) => StdIsVerify(forged.tok, forged.root)
\* without blocks in the deprecated third-party layout (the current API cannot produce them) the three
\* modes accept exactly the same tokens: in particular a payload tail presented as an external
\* signature (Resplit) is accepted by none of them
ModesCoincide ==
    phase = "done" => (AcceptedIn("legacy") = AcceptedIn("std") /\ AcceptedIn("mixed") = AcceptedIn("std"))
SoundInEveryMode ==
    \A m \in Modes : (AcceptedIn(m) /\ Weakness = "none") => Authentic(forged.tok, forged.root, forged.known)


\* C15 / C01 strict form: an accepted token whose blocks equal a known token's blocks
\* up to signature encodings presents the same revocation identifiers
NonMalleable ==
    Accepted => \A i \in 1..Len(toks) :
        (toks[i].root = forged.root /\ SameBlocksModForm(forged.tok, KTok(i)))
            => RevIds(forged.tok) = RevIds(KTok(i))

\* the ECDSA re-encoding weakness is the only way revocation ids of the same blocks can differ
NonMalleableModuloKnown ==
    Accepted => \A i \in 1..Len(toks) :
        (toks[i].root = forged.root /\ SameBlocksModForm(forged.tok, KTok(i)) /\ RevIds(forged.tok) # RevIds(KTok(i)))
            => /\ Last(forged.tok).sig.signer.alg = "p256"
               /\ \A j \in 1..(Len(forged.tok.blocks) - 1) : forged.tok.blocks[j] = KTok(i).blocks[j]
               /\ (IsSealed(forged.tok) => i \in forged.known /\ FALSE)

\* C02: every honest token verifies under its root
Complete == \A i \in 1..Len(toks) : Verify(KTok(i), toks[i].root)

\* C16 (chain part): the chained scheme is never left once entered
VersionMonotone ==
    \A i \in 1..Len(toks) : \A j \in 1..Len(KTok(i).blocks) : \A k \in 1..Len(KTok(i).blocks) :
        (j < k /\ KTok(i).blocks[j].ver = 1) => KTok(i).blocks[k].ver = 1

\* C15: revocation ids of existing blocks never change under honest operations
RevIdsStable ==
    \A i \in 1..Len(toks) : toks[i].from # 0 =>
        IsPrefixOf(RevIds(KTok(toks[i].from)), RevIds(KTok(i)))

RevIdsUnique ==
    \A i \in 1..Len(toks) : \A j \in 1..Len(KTok(i).blocks) : \A k \in 1..Len(KTok(i).blocks) :
        j # k => KTok(i).blocks[j].sig # KTok(i).blocks[k].sig

\* C08: a sealed token is final: nothing accepted extends or alters it unless it
\* is (a re-encoding of) the sealed token itself
SealedFinal ==
    Accepted => \A i \in forged.known :
        (IsSealed(KTok(i)) /\ toks[i].root = forged.root /\ forged.mut.t = i)
            => \/ SameSigned(forged.tok, KTok(i))
               \/ \E h \in 1..Len(toks) : h # i /\ AuthenticVia(forged.tok, KTok(h), forged.known, h \in forged.known)
               \/ SameBlocksModForm(forged.tok, KTok(i))

\* SealedFinal holds except through the v0 weakness (a version-0 last block and its seal
\* do not cover the blocks before them)
SealedFinalModuloKnown == SealedFinal \/ Weakness = "v0-resplice"

\* one line per adversary token (accepted ones always, rejected ones sampled 1/SampleN)
ExportForged ==
    \* accepted tokens are always exported - except, when sampling, the provider variants of the unmodified /
    \* hint-flipped token, which are sampled like the rejected ones
    (ExportOn /\ phase = "done" /\ ((Accepted /\ forged.prov[1] = forged.prov[2]) \/ SampleN = 1 \/ RandomElement(1..SampleN) = 1)) =>
        PrintT(<<"FORGED", ToJson([log |-> log, forged |-> forged,
                                   accept |-> (forged.root # NoKey /\ Verify(forged.tok, forged.root)),
                                   accept_legacy |-> AcceptedIn("legacy"), accept_mixed |-> AcceptedIn("mixed"),
                                   authentic |-> Authentic(forged.tok, forged.root, forged.known),
                                   weakness |-> Weakness])>>)

\* one line per complete honest history
ExportHonest ==
    (ExportOn /\ phase = "honest" /\ Len(toks) = MaxOps) =>
        PrintT(<<"HONEST", ToJson([log |-> log, toks |-> toks])>>)

\* ---- constant definitions for the .cfg files
PV == [P1 |-> 3, P2 |-> 3, P6 |-> 6, T1 |-> 5]
PVSplit == [P1 |-> 3, P12 |-> 3, T1 |-> 5]
\* P7: a block that declares a public key (a `trusting` scope: Datalog 3.1)
PVKeys == [P1 |-> 3, P7 |-> 4, T1 |-> 5]
FPKeys == {"P1", "P7"}
FPSplit == {"P1", "P12"}
ModeMutations == {"Resplit", "SetExt", "SetVer", "Identity", "Forge", "Splice"}
FP == {"P1", "P6"}
FP1 == {"P1"}
FP3 == {"P1", "P2", "P6"}
TP == {"T1"}
AlgsEd == {"ed"}
AlgsP == {"p256"}
AlgsBoth == {"ed", "p256"}
NoMutations == {}
ExtMutations == {"SetExt", "Reorder", "Splice", "Forge", "Malleate", "SetPayload", "Identity"}
IdMutations == {"Malleate", "SetSig", "Identity", "Proof", "Reorder"}
OnlyIdentity == {"Identity"}
AllMutations == {"SetPayload", "SetNextKey", "SetSig", "SetVer", "SetExt", "Reorder", "Truncate",
                 "Splice", "Malleate", "Forge", "Proof", "Identity"}
=============================================================================
