----------------------------- MODULE ChainTrace -----------------------------
(***************************************************************************)
(* Trace validation for the token container (C02, C08, C15): a run of the  *)
(* real API, recorded by `vh chain-record` with every produced token       *)
(* PROJECTED to the abstract records of Chain.tla (signatures are          *)
(* projected by finding the (key, layout) under which the real bytes       *)
(* verify), must be a behaviour of the honest actions of Chain.tla.        *)
(***************************************************************************)
EXTENDS Chain, TLC, Json, IOUtils

Rec == ndJsonDeserialize(IOEnv.TRACE)

VARIABLES toks,   \* sequence of abstract tokens produced so far in this run
          l       \* next trace line

tvars == <<toks, l>>

\* payload versions: a JSON object {payload id: declared Datalog version} written by the recorder
PVTable == JsonDeserialize(IOEnv.PVFILE)

TraceInit == toks = <<>> /\ l = 1

IsEvent(e) == l <= Len(Rec) /\ Rec[l].ev = e /\ l' = l + 1

TReset == IsEvent("reset") /\ toks' = <<>>

\* every produced token must verify under its root (Complete) - checked at each step
\* the API's revocation identifiers: identifier j is the signature of block j (recorded as the label j), whether
\* the token is read through Biscuit, through UnverifiedBiscuit, or is the in-memory object the operation returned
BlockSigLabels(t) == [j \in 1..Len(t.blocks) |-> j]
Produced(t, root) ==
    /\ t = Rec[l].tok              \* the real token, projected, is exactly the spec's token
    /\ Verify(t, root)
    /\ Rec[l].rev_v = BlockSigLabels(t) /\ Rec[l].rev_u = BlockSigLabels(t) /\ Rec[l].rev_t = BlockSigLabels(t)
    /\ toks' = Append(toks, [tok |-> t, root |-> root])

TBuild ==
    /\ IsEvent("build")
    /\ Produced(BuildTok(Rec[l].root, Rec[l].nk, Rec[l].p, Rec[l].rkid), Rec[l].root)

TAppend ==
    /\ IsEvent("append")
    /\ Rec[l].from \in 1..Len(toks)
    /\ LET src == toks[Rec[l].from] IN
       /\ CanExtend(src.tok)
       /\ Produced(AppendTok(src.tok, Rec[l].nk, Rec[l].p), src.root)
       /\ RevIds(src.tok) = SubSeq(RevIds(Rec[l].tok), 1, Len(src.tok.blocks))

TAppendTP ==
    /\ IsEvent("append3p")
    /\ Rec[l].from \in 1..Len(toks)
    /\ LET src == toks[Rec[l].from] IN
       /\ CanExtend(src.tok)
       /\ Produced(AppendTPTok(src.tok, Rec[l].nk, Rec[l].p, Rec[l].ek,
                               ThirdPartySig(Rec[l].ek, Rec[l].p, Last(src.tok).sig)), src.root)

TSeal ==
    /\ IsEvent("seal")
    /\ Rec[l].from \in 1..Len(toks)
    /\ LET src == toks[Rec[l].from] IN
       /\ CanExtend(src.tok)
       /\ Produced(SealTok(src.tok), src.root)
       /\ RevIds(src.tok) = RevIds(Rec[l].tok)

\* an operation the API refused: the spec must refuse it too (source is sealed)
TRefused ==
    /\ IsEvent("refused")
    /\ Rec[l].from \in 1..Len(toks)
    /\ ~CanExtend(toks[Rec[l].from].tok)
    /\ UNCHANGED toks

\* a third-party request was handed out: only unsealed tokens give one
TRequest ==
    /\ IsEvent("request")
    /\ Rec[l].from \in 1..Len(toks)
    /\ CanExtend(toks[Rec[l].from].tok)
    /\ UNCHANGED toks

\* serialize + deserialize (any entry point): the same abstract token
TReload ==
    /\ IsEvent("reload")
    /\ Rec[l].from \in 1..Len(toks)
    /\ Rec[l].tok = toks[Rec[l].from].tok
    /\ UNCHANGED toks

\* a BYTE-LEVEL VARIANT of a token's serialization (bit flips, truncations, insertions, protobuf
\* re-encodings, another root key id) was ACCEPTED by an entry point under the token's root key: what was
\* accepted carries exactly the same signed blocks and proof (C01), in whichever mode the entry point works
TAdmit ==
    /\ IsEvent("admit")
    /\ Rec[l].from \in 1..Len(toks)
    /\ LET src == toks[Rec[l].from] IN
       /\ SameSigned(Rec[l].tok, src.tok)
       /\ VerifyMode(Rec[l].tok, src.root, Rec[l].mode)
    /\ UNCHANGED toks

TraceNext == TReset \/ TRequest \/ TBuild \/ TAppend \/ TAppendTP \/ TSeal \/ TRefused \/ TReload \/ TAdmit

TraceSpec == TraceInit /\ [][TraceNext]_tvars

\* signature-version monotonicity holds along every recorded run (C16 chain part)
TraceVersionMonotone ==
    \A i \in 1..Len(toks) : \A j \in 1..Len(toks[i].tok.blocks) : \A k \in 1..Len(toks[i].tok.blocks) :
        (j < k /\ toks[i].tok.blocks[j].ver = 1) => toks[i].tok.blocks[k].ver = 1

TraceAccepted ==
    LET d == TLCGet("stats").diameter IN
    IF d - 1 = Len(Rec) THEN TRUE
    ELSE /\ PrintT(<<"TRACE-REJECTED", d, ToJson(Rec[d])>>)
         /\ FALSE
=============================================================================
