------------------------------ MODULE Datalog ------------------------------
(***************************************************************************)
(* Scoped Datalog with provenance, as defined by the Biscuit               *)
(* specification ("Datalog", "Scopes" and "Origins" sections); independent *)
(* of biscuit-auth/src/datalog.                                            *)
(*                                                                         *)
(*  - ground terms are opaque atoms (strings such as "i:1", "s:a", "b:t",  *)
(*    "set:{i:1}", ...): only equality matters for unification;            *)
(*  - variables are the strings in Vars;                                   *)
(*  - a fact entry is [o |-> origin set, f |-> [p |-> name, a |-> args]];  *)
(*  - a rule is [head, body, guards, owner, trusted]: it sees the entries  *)
(*    whose origin is a subset of `trusted`, and every fact it derives     *)
(*    carries the union of the origins used plus `owner`.                  *)
(***************************************************************************)
EXTENDS Naturals, Sequences, FiniteSets

CONSTANTS Vars,        \* set of variable names (strings)
          IntVal       \* function: integer atoms -> their value (for ordered guards)

AZ == 99               \* origin of the authorizer (usize::MAX in the implementation)

Atom(p, a)  == [p |-> p, a |-> a]
Entry(o, f) == [o |-> o, f |-> f]

IsVar(t) == t \in Vars

VarsOfAtom(at) == {at.a[i] : i \in {j \in 1..Len(at.a) : IsVar(at.a[j])}}
VarsOfBody(body) == UNION {VarsOfAtom(body[i]) : i \in 1..Len(body)}

SubstTerm(t, s) == IF IsVar(t) /\ t \in DOMAIN s THEN s[t] ELSE t
SubstAtom(at, s) == Atom(at.p, [i \in 1..Len(at.a) |-> SubstTerm(at.a[i], s)])
IsGround(at) == \A i \in 1..Len(at.a) : ~IsVar(at.a[i])

(***************************************************************************)
(* Guards (expressions attached to a rule), evaluated under a complete     *)
(* binding: TRUE, FALSE or "err".  Only what the enumerated universes use: *)
(*   none | eq(l,r) | neq(l,r) | lt(l,r) over integer atoms | nz(t): the   *)
(*   model of `10 / t >= 0` - an error when t is the integer 0 | ov(t):    *)
(*   the model of `MAX + t > 0` - an overflow when t is positive.          *)
(***************************************************************************)
Guard(k, l, r) == [k |-> k, l |-> l, r |-> r]
NoGuard == Guard("none", "-", "-")

\* results: "T", "F", or an error kind: "Ed" (division by zero), "Eo" (overflow), "Et" (type)
ErrKinds == {"Ed", "Eo", "Et"}
IsErrKind(v) == v \in ErrKinds

EvalGuard(g, s) ==
    LET l == SubstTerm(g.l, s)  r == SubstTerm(g.r, s) IN
    CASE g.k = "none" -> "T"
      [] g.k = "eq"   -> IF l = r THEN "T" ELSE "F"
      [] g.k = "neq"  -> IF l # r THEN "T" ELSE "F"
      [] g.k = "lt"   -> IF l \in DOMAIN IntVal /\ r \in DOMAIN IntVal
                         THEN (IF IntVal[l] < IntVal[r] THEN "T" ELSE "F")
                         ELSE "Et"
      \* 10 / l >= 0
      [] g.k = "nz"   -> IF l \in DOMAIN IntVal
                         THEN (IF IntVal[l] = 0 THEN "Ed" ELSE "T")
                         ELSE "Et"
      \* MAX + l > 0
      [] g.k = "ov"   -> IF l \in DOMAIN IntVal
                         THEN (IF IntVal[l] > 0 THEN "Eo" ELSE "T")
                         ELSE "Et"
      [] g.k = "false" -> "F"

\* all guards of a rule under binding s: the first guard that is not true decides
RECURSIVE EvalGuards(_, _)
EvalGuards(gs, s) ==
    IF gs = <<>> THEN "T"
    ELSE LET v == EvalGuard(Head(gs), s) IN
         IF v = "T" THEN EvalGuards(Tail(gs), s) ELSE v

(***************************************************************************)
(* Rule application.                                                       *)
(***************************************************************************)
Visible(F, trusted) == {e \in F : e.o \subseteq trusted}

\* constants a binding may range over: every term occurring in a visible fact
TermsOf(F) == UNION {{e.f.a[i] : i \in 1..Len(e.f.a)} : e \in F}

\* origin sets under which the ground atom `g` is visible
OriginsOf(g, V) == {e.o : e \in {x \in V : x.f = g}}

\* all unions of one origin set per body atom (body instantiated by s)
RECURSIVE SupportOrigins(_, _, _)
SupportOrigins(body, s, V) ==
    IF body = <<>> THEN {{}}
    ELSE LET os == OriginsOf(SubstAtom(Head(body), s), V) IN
         IF os = {} THEN {}
         ELSE LET rest == SupportOrigins(Tail(body), s, V) IN
              {o1 \cup o2 : o1 \in os, o2 \in rest}

Bindings(body, V) ==
    LET vs == VarsOfBody(body) IN [vs -> TermsOf(V)]

\* the successful matches of a body: set of [s |-> binding, o |-> origin]
Matches(body, V) ==
    UNION {{[s |-> s, o |-> o] : o \in SupportOrigins(body, s, V)} : s \in Bindings(body, V)}

HeadBound(r) == VarsOfAtom(r.head) \subseteq VarsOfBody(r.body)

\* facts produced by one application of rule r to the fact set F
ApplyRule(r, F) ==
    IF ~HeadBound(r) THEN {}
    ELSE LET V == Visible(F, r.trusted) IN
         {Entry(m.o \cup {r.owner}, SubstAtom(r.head, m.s)) :
              m \in {x \in Matches(r.body, V) : EvalGuards(r.guards, x.s) = "T"}}

\* does some binding of r make a guard fail with an error ?
RuleErrKinds(r, F) ==
    LET V == Visible(F, r.trusted) IN
    {EvalGuards(r.guards, m.s) : m \in Matches(r.body, V)} \cap ErrKinds
RuleErrors(r, F) == RuleErrKinds(r, F) # {}

Step(F, R) == F \cup UNION {ApplyRule(r, F) : r \in R}

RECURSIVE Fix(_, _)
Fix(F, R) == LET N == Step(F, R) IN IF N = F THEN F ELSE Fix(N, R)

\* number of passes the naive evaluation needs that ADD facts
RECURSIVE Passes(_, _)
Passes(F, R) == LET N == Step(F, R) IN IF N = F THEN 0 ELSE 1 + Passes(N, R)

(***************************************************************************)
(* Queries: a query is a rule without owner; it sees `trusted`.            *)
(***************************************************************************)
\* outcomes of the bindings of a query, as a set of "T" / "F" / "E"
Outcomes(q, F, trusted) ==
    LET V == Visible(F, trusted) IN
    {EvalGuards(q.guards, m.s) : m \in Matches(q.body, V)}

MatchOne(q, F, trusted) == "T" \in Outcomes(q, F, trusted)
MatchAll(q, F, trusted) == LET O == Outcomes(q, F, trusted) IN O # {} /\ O = {"T"}
=============================================================================
