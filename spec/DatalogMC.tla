----------------------------- MODULE DatalogMC -----------------------------
(***************************************************************************)
(* C05: small worlds for the Datalog engine itself (World::run): facts     *)
(* with arbitrary origin sets, rules with arbitrary owners and trusted     *)
(* sets, joins, repeated variables, constants of every term type, facts    *)
(* of the same name with other arities,                                    *)
(* recursion, empty bodies, guards and unbound head variables.             *)
(* One TLC state = one program; the spec computes the least fixpoint with  *)
(* provenance and the sequence of naive-evaluation levels.                 *)
(***************************************************************************)
EXTENDS Datalog, TLC, Json

CONSTANTS ConstPairs,   \* set of <<c1, c2>> pairs of typed atoms
          OriginMenu,   \* origin sets an initial fact may carry
          TrustMenu,    \* trusted sets a rule may have
          Owners,       \* rule owners
          Templates2,   \* template ids allowed for the optional second rule
          ExportOn, SampleN

VARIABLES prog, seed
vars == <<prog, seed>>

X == "$x"
Y == "$y"
Z == "$z"

P(a)    == Atom("p", <<a>>)
Q(a, b) == Atom("q", <<a, b>>)
RR(a)   == Atom("r", <<a>>)

Rule(head, body, guards, owner, trusted) ==
    [head |-> head, body |-> body, guards |-> guards, owner |-> owner, trusted |-> trusted]

\* rule templates over the two constants of the program
Template(t, c1, c2, ow, tr) ==
    CASE t = 1  -> Rule(RR(X), <<P(X)>>, <<>>, ow, tr)
      [] t = 2  -> Rule(RR(X), <<Q(X, X)>>, <<>>, ow, tr)                   \* repeated variable
      [] t = 3  -> Rule(RR(X), <<Q(X, Y), P(Y)>>, <<>>, ow, tr)             \* join
      [] t = 4  -> Rule(RR(X), <<P(X), Q(X, c2)>>, <<>>, ow, tr)            \* constant in the body
      [] t = 5  -> Rule(P(Y), <<Q(X, Y)>>, <<>>, ow, tr)                    \* feeds p
      [] t = 6  -> Rule(Q(X, Y), <<Q(Y, X)>>, <<>>, ow, tr)                 \* symmetric closure
      [] t = 7  -> Rule(RR(Z), <<P(X)>>, <<>>, ow, tr)                      \* unbound head variable
      [] t = 8  -> Rule(RR(c1), <<>>, <<>>, ow, tr)                         \* empty body
      [] t = 9  -> Rule(RR(X), <<P(X)>>, <<Guard("neq", X, c1)>>, ow, tr)   \* guard
      [] t = 10 -> Rule(Q(X, Z), <<Q(X, Y), Q(Y, Z)>>, <<>>, ow, tr)        \* transitive closure
      [] t = 11 -> Rule(P(X), <<RR(X)>>, <<>>, ow, tr)                      \* r feeds back into p
      [] t = 12 -> Rule(RR(c2), <<P(c1)>>, <<>>, ow, tr)                    \* ground rule

TemplateIds == 1..12

NoOrigin == {77}

\* Init picks the seed (constants + origins of the three candidate facts)
Init ==
    /\ seed \in {[stage |-> 0, cs |-> cp, o1 |-> o1, o2 |-> o2, o3 |-> o3, ar |-> ar] :
                    cp \in ConstPairs, o1 \in OriginMenu \cup {NoOrigin},
                    o2 \in OriginMenu \cup {NoOrigin}, o3 \in OriginMenu \cup {NoOrigin}, ar \in BOOLEAN}
    /\ prog = [facts |-> {}, rules |-> <<>>]

FactsOf(sd) ==
    LET c1 == sd.cs[1]  c2 == sd.cs[2] IN
    (IF sd.o1 = NoOrigin THEN {} ELSE {Entry(sd.o1, P(c1))})
    \cup (IF sd.o2 = NoOrigin THEN {} ELSE {Entry(sd.o2, Q(c1, c2))})
    \cup (IF sd.o3 = NoOrigin THEN {} ELSE {Entry(sd.o3, Q(c2, c2)), Entry({0}, P(c2))})
    \* a predicate is a name AND an arity: facts p/2, q/1, q/3 and r/0 share nothing with p/1, q/2 and r/1
    \cup (IF sd.ar THEN {Entry({0}, Atom("p", <<c1, c2>>)), Entry({0}, Atom("p", <<c2, c1>>)), Entry({0}, Atom("q", <<c1>>)),
                          Entry({0}, Atom("q", <<c1, c2, c1>>)), Entry({0}, Atom("q", <<c2, c2, c2>>)), Entry({0}, Atom("r", <<>>))}
          ELSE {})

Next ==
    /\ seed.stage = 0
    /\ seed' = [seed EXCEPT !.stage = 1]
    /\ \E t1 \in TemplateIds, ow1 \in Owners, tr1 \in TrustMenu,
          t2 \in Templates2 \cup {0}, ow2 \in Owners :
          LET c1 == seed.cs[1]  c2 == seed.cs[2]
              r1 == Template(t1, c1, c2, ow1, tr1)
              rs == IF t2 = 0 THEN <<r1>> ELSE <<r1, Template(t2, c1, c2, ow2, {0, 1, AZ})>>
          IN /\ (t2 = 0) => ow2 = AZ
             /\ prog' = [facts |-> FactsOf(seed), rules |-> rs]

Spec == Init /\ [][Next]_vars
Ready == seed.stage = 1

RuleSet == {prog.rules[i] : i \in 1..Len(prog.rules)}
LFP == Fix(prog.facts, RuleSet)

\* the successive levels of naive evaluation (what each pass of the engine must hold)
RECURSIVE Levels(_, _)
Levels(F, R) == LET N == Step(F, R) IN IF N = F THEN <<F>> ELSE <<F>> \o Levels(N, R)

(***************************************************************************)
(* Design-level properties of the semantics.                               *)
(***************************************************************************)
\* the result is a fixpoint, contains the initial facts, and every derived entry carries a rule owner
IsFixpoint == Ready => (Step(LFP, RuleSet) = LFP /\ prog.facts \subseteq LFP)

\* provenance: an entry that is not initial names the owner of some rule
ProvenanceOK ==
    Ready => \A e \in LFP \ prog.facts : \E r \in RuleSet : r.owner \in e.o /\ e.f.p = r.head.p

\* a rule only consumes what it trusts: removing everything it cannot see changes nothing
TrustRespected ==
    Ready => \A r \in RuleSet : ApplyRule(r, LFP) = ApplyRule(r, Visible(LFP, r.trusted))

\* rules with an unbound head variable never produce anything
UnboundHeadSilent ==
    Ready => \A r \in RuleSet : ~HeadBound(r) => ApplyRule(r, LFP) = {}

\* minimality: every derived entry is produced by one rule application from the fixpoint itself
Supported ==
    Ready => \A e \in LFP \ prog.facts : \E r \in RuleSet : e \in ApplyRule(r, LFP)

FlatEntry(e) == [o |-> e.o, p |-> e.f.p, a |-> e.f.a]

Export ==
    (ExportOn /\ Ready /\ (SampleN = 1 \/ RandomElement(1..SampleN) = 1)) =>
        PrintT(<<"DLOG", ToJson([facts |-> {FlatEntry(e) : e \in prog.facts},
                                 rules |-> prog.rules,
                                 lfp |-> {FlatEntry(e) : e \in LFP},
                                 levels |-> [i \in 1..Len(Levels(prog.facts, RuleSet)) |->
                                                Cardinality(Levels(prog.facts, RuleSet)[i])],
                                 passes |-> Passes(prog.facts, RuleSet)])>>)

\* ---- constants for cfg files
VarsXYZ == {"$x", "$y", "$z"}
NoInts == [i \in {} |-> 0]
PairsTyped == {<<"i:1", "i:2">>, <<"i:1", "d:1">>, <<"i:1", "b:t">>, <<"s:a", "s:b">>, <<"s:1", "i:1">>,
               <<"b:t", "b:f">>, <<"d:1", "d:2">>, <<"y:01", "y:02">>, <<"n:", "i:0">>, <<"set:1", "set:2">>,
               <<"set:1", "arr:1">>, <<"arr:1", "arr:2">>, <<"map:1", "map:2">>, <<"y:01", "s:a">>,
               \* collections that differ in one element only (same size / same keys / same shape, other value, also at depth 2):
               \* ground terms are compared structurally to full depth wherever a variable is bound twice or a constant is matched
               <<"set:1", "set:3">>, <<"arr:1", "arr:3">>, <<"arr:4", "arr:5">>, <<"map:1", "map:3">>, <<"map:4", "map:5">>}
PairsFew == {<<"i:1", "i:2">>, <<"s:a", "i:1">>, <<"set:1", "arr:1">>}
Origins4 == {{0}, {1}, {0, 1}, {AZ}}
Origins3 == {{0}, {1}, {0, 1}}
Trust4 == {{0, AZ}, {0, 1, AZ}, {1, AZ}, {AZ}}
Owners3 == {0, 1, AZ}
T2Few == {5, 6, 10, 11}
T2None == {}
=============================================================================
