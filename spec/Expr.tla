-------------------------------- MODULE Expr --------------------------------
(***************************************************************************)
(* The Biscuit expression language: values, unary and binary operations,   *)
(* and the stack machine that evaluates an operation sequence (closures,   *)
(* lazy boolean operators, all/any, shadowing).  Transcribed from the      *)
(* Biscuit specification ("Expressions"), not from expression.rs.          *)
(*                                                                         *)
(* Values are records tagged with their type.  64-bit integers are         *)
(* ANCHORED: [t |-> "int", k, r] stands for k * 2^62 + r with small r, so  *)
(* MIN = (-2, 0), MAX = (2, -1); addition, subtraction, multiplication,    *)
(* comparison and the in-range test are exact on this representation for   *)
(* the operands enumerated (TLC integers are 32-bit).                      *)
(* Strings are atoms; the string relations (prefix, suffix, contains,      *)
(* concatenation, length) are given by the constant StrFacts.              *)
(***************************************************************************)
EXTENDS Integers, Sequences, FiniteSets, Bitwise

CONSTANTS StrFacts   \* [prefix, suffix, contains : sets of <<s, t>>; concat : set of <<s, t, st>>; len : function]

IntV(k, r)  == [t |-> "int", k |-> k, r |-> r]
Small(n)   == IntV(0, n)
IMAX       == IntV(2, -1)
IMIN       == IntV(-2, 0)
Str(s)     == [t |-> "str", v |-> s]
Date(n)    == [t |-> "date", r |-> n]
Bytes(h)   == [t |-> "bytes", v |-> h]
Bool(b)    == [t |-> "bool", b |-> b]
Null       == [t |-> "null"]
SetV(S)    == [t |-> "set", e |-> S]        \* S: TLA+ set of scalar values
Arr(s)     == [t |-> "arr", e |-> s]        \* sequence of values
MapV(S)    == [t |-> "map", e |-> S]        \* set of <<key, value>>, keys are ints or strings
Err        == [t |-> "ERR"]

IsErr(v) == v.t = "ERR"
VEq(a, b) == a.t = b.t /\ a = b

Types == {"int", "str", "date", "bytes", "bool", "null", "set", "arr", "map"}

(***************************************************************************)
(* Anchored 64-bit arithmetic.                                             *)
(***************************************************************************)
InRange(k, r) == (k > -2 /\ k < 2) \/ (k = 2 /\ r < 0) \/ (k = -2 /\ r >= 0)
MkInt(k, r) == IF InRange(k, r) THEN IntV(k, r) ELSE Err

IAdd(a, b) == MkInt(a.k + b.k, a.r + b.r)
ISub(a, b) == MkInt(a.k - b.k, a.r - b.r)
IMul(a, b) ==
    IF a.k # 0 /\ b.k # 0 THEN Err                         \* |a|,|b| >= 2^61: always out of range
    ELSE IF a.k = 0 /\ b.k = 0 THEN Small(a.r * b.r)
    ELSE LET big == IF a.k # 0 THEN a ELSE b
             sm  == IF a.k # 0 THEN b.r ELSE a.r
         IN MkInt(big.k * sm, big.r * sm)
ILt(a, b) == a.k < b.k \/ (a.k = b.k /\ a.r < b.r)

\* truncating division (towards zero), small operands only; x / 0 and MIN / -1 are errors
TDiv(x, y) == LET q == (IF x < 0 THEN -x ELSE x) \div (IF y < 0 THEN -y ELSE y)
              IN IF (x < 0) # (y < 0) THEN -q ELSE q
IDiv(a, b) ==
    IF b.k = 0 /\ b.r = 0 THEN Err
    ELSE IF VEq(a, IMIN) /\ VEq(b, Small(-1)) THEN Err
    ELSE IF a.k = 0 /\ b.k = 0 THEN Small(TDiv(a.r, b.r))
    ELSE [t |-> "SKIP"]                                      \* not enumerated

\* bitwise operations: small non-negative operands only
IBit(op, a, b) ==
    IF a.k = 0 /\ b.k = 0 /\ a.r >= 0 /\ b.r >= 0
    THEN Small(CASE op = "BitwiseAnd" -> a.r & b.r
                 [] op = "BitwiseOr"  -> a.r | b.r
                 [] op = "BitwiseXor" -> a.r ^^ b.r)
    ELSE [t |-> "SKIP"]

(***************************************************************************)
(* Unary operations.                                                       *)
(***************************************************************************)
TypeName(v) == CASE v.t = "int" -> "integer" [] v.t = "str" -> "string" [] v.t = "arr" -> "array"
                 [] OTHER -> v.t

Unary(op, v) ==
    CASE op = "Negate" -> IF v.t = "bool" THEN Bool(~v.b) ELSE Err
      [] op = "Parens" -> v
      [] op = "TypeOf" -> Str(TypeName(v))
      [] op = "Length" ->
            CASE v.t = "str"   -> Small(StrFacts.len[v.v])
              [] v.t = "bytes" -> Small(StrFacts.len[v.v] \div 2)
              [] v.t = "set"   -> Small(Cardinality(v.e))
              [] v.t = "arr"   -> Small(Len(v.e))
              [] v.t = "map"   -> Small(Cardinality(v.e))
              [] OTHER -> Err

(***************************************************************************)
(* Binary operations on two values.                                        *)
(***************************************************************************)
SameType(a, b) == a.t = b.t
KeyOf(v) == v   \* map keys are int or str values

ArrayContains(a, x) == \E i \in 1..Len(a.e) : VEq(a.e[i], x)
MapLookup(m, key) ==
    IF \E p \in m.e : VEq(p[1], key) THEN (CHOOSE p \in m.e : VEq(p[1], key))[2] ELSE Null

Binary(op, a, b) ==
    CASE op \in {"LessThan", "GreaterThan", "LessOrEqual", "GreaterOrEqual"} ->
            IF a.t = "int" /\ b.t = "int" THEN
                Bool(CASE op = "LessThan" -> ILt(a, b) [] op = "GreaterThan" -> ILt(b, a)
                       [] op = "LessOrEqual" -> ~ILt(b, a) [] op = "GreaterOrEqual" -> ~ILt(a, b))
            ELSE IF a.t = "date" /\ b.t = "date" THEN
                Bool(CASE op = "LessThan" -> a.r < b.r [] op = "GreaterThan" -> a.r > b.r
                       [] op = "LessOrEqual" -> a.r <= b.r [] op = "GreaterOrEqual" -> a.r >= b.r)
            ELSE Err
      [] op = "Equal"    -> IF SameType(a, b) THEN Bool(a = b) ELSE Err       \* strict: same type required
      [] op = "NotEqual" -> IF SameType(a, b) THEN Bool(a # b) ELSE Err
      [] op = "HeterogeneousEqual"    -> Bool(VEq(a, b))
      [] op = "HeterogeneousNotEqual" -> Bool(~VEq(a, b))
      [] op = "Add" -> IF a.t = "int" /\ b.t = "int" THEN IAdd(a, b)
                       ELSE IF a.t = "str" /\ b.t = "str"
                            THEN Str((CHOOSE c \in StrFacts.concat : c[1] = a.v /\ c[2] = b.v)[3])
                            ELSE Err
      [] op = "Sub" -> IF a.t = "int" /\ b.t = "int" THEN ISub(a, b) ELSE Err
      [] op = "Mul" -> IF a.t = "int" /\ b.t = "int" THEN IMul(a, b) ELSE Err
      [] op = "Div" -> IF a.t = "int" /\ b.t = "int" THEN IDiv(a, b) ELSE Err
      [] op \in {"BitwiseAnd", "BitwiseOr", "BitwiseXor"} ->
            IF a.t = "int" /\ b.t = "int" THEN IBit(op, a, b) ELSE Err
      [] op = "And" -> IF a.t = "bool" /\ b.t = "bool" THEN Bool(a.b /\ b.b) ELSE Err
      [] op = "Or"  -> IF a.t = "bool" /\ b.t = "bool" THEN Bool(a.b \/ b.b) ELSE Err
      [] op = "Prefix" ->
            IF a.t = "str" /\ b.t = "str" THEN Bool(<<a.v, b.v>> \in StrFacts.prefix)
            ELSE IF a.t = "arr" /\ b.t = "arr"
                 THEN Bool(Len(b.e) <= Len(a.e) /\ SubSeq(a.e, 1, Len(b.e)) = b.e)
                 ELSE Err
      [] op = "Suffix" ->
            IF a.t = "str" /\ b.t = "str" THEN Bool(<<a.v, b.v>> \in StrFacts.suffix)
            ELSE IF a.t = "arr" /\ b.t = "arr"
                 THEN Bool(Len(b.e) <= Len(a.e) /\ SubSeq(a.e, Len(a.e) - Len(b.e) + 1, Len(a.e)) = b.e)
                 ELSE Err
      [] op = "Regex" ->      \* literal patterns only: a match is a substring occurrence
            IF a.t = "str" /\ b.t = "str" THEN Bool(<<a.v, b.v>> \in StrFacts.contains) ELSE Err
      [] op = "Contains" ->
            CASE a.t = "str" -> IF b.t = "str" THEN Bool(<<a.v, b.v>> \in StrFacts.contains) ELSE Err
              [] a.t = "set" -> IF b.t = "set" THEN Bool(b.e \subseteq a.e)
                                ELSE IF b.t \in {"int", "date", "bool", "str", "bytes"} THEN Bool(b \in a.e)
                                ELSE Err
              [] a.t = "arr" -> Bool(ArrayContains(a, b))
              [] a.t = "map" -> Bool(\E p \in a.e : VEq(p[1], b))
              [] OTHER -> Err
      [] op = "Intersection" -> IF a.t = "set" /\ b.t = "set" THEN SetV(a.e \cap b.e) ELSE Err
      [] op = "Union"        -> IF a.t = "set" /\ b.t = "set" THEN SetV(a.e \cup b.e) ELSE Err
      [] op = "Get" ->
            CASE a.t = "arr" /\ b.t = "int" ->
                    IF b.k = 0 /\ b.r >= 0 /\ b.r < Len(a.e) THEN a.e[b.r + 1] ELSE Null
              [] a.t = "map" /\ b.t \in {"int", "str"} -> MapLookup(a, b)
              [] OTHER -> Err
      \* the closure-taking operators applied to a plain value
      [] op \in {"LazyAnd", "LazyOr", "All", "Any"} -> Err

UnaryOps  == {"Negate", "Parens", "Length", "TypeOf"}
BinaryOps == {"LessThan", "GreaterThan", "LessOrEqual", "GreaterOrEqual", "Equal", "NotEqual",
              "HeterogeneousEqual", "HeterogeneousNotEqual", "Add", "Sub", "Mul", "Div",
              "BitwiseAnd", "BitwiseOr", "BitwiseXor", "And", "Or", "Prefix", "Suffix", "Regex",
              "Contains", "Intersection", "Union", "Get", "LazyAnd", "LazyOr", "All", "Any"}

\* type strictness, stated on its own: outside these type pairs an operator is an error
\* WHATEVER the values (heterogeneous (in)equality accepts everything)
Accepts(op, ta, tb) ==
    CASE op \in {"LessThan", "GreaterThan", "LessOrEqual", "GreaterOrEqual"} -> (ta = tb /\ ta \in {"int", "date"})
      [] op \in {"Equal", "NotEqual"} -> ta = tb
      [] op \in {"HeterogeneousEqual", "HeterogeneousNotEqual"} -> TRUE
      [] op = "Add" -> ta = tb /\ ta \in {"int", "str"}
      [] op \in {"Sub", "Mul", "Div", "BitwiseAnd", "BitwiseOr", "BitwiseXor"} -> ta = "int" /\ tb = "int"
      [] op \in {"And", "Or"} -> ta = "bool" /\ tb = "bool"
      [] op \in {"Prefix", "Suffix"} -> ta = tb /\ ta \in {"str", "arr"}
      [] op = "Regex" -> ta = "str" /\ tb = "str"
      [] op = "Contains" -> \/ (ta = "str" /\ tb = "str")
                            \/ (ta = "set" /\ tb \in {"set", "int", "date", "bool", "str", "bytes"})
                            \/ ta \in {"arr", "map"}
      [] op \in {"Intersection", "Union"} -> ta = "set" /\ tb = "set"
      [] op = "Get" -> (ta = "arr" /\ tb = "int") \/ (ta = "map" /\ tb \in {"int", "str"})
      [] op \in {"LazyAnd", "LazyOr", "All", "Any"} -> FALSE

(***************************************************************************)
(* Extern functions.  The embedder registers named functions taking one or *)
(* two values; the operations [o |-> "un"/"bin", op |-> "Ffi", f |-> name] *)
(* call them.  The specification fixes a small registry:                   *)
(*   id(a[, b]) = a     second(a, b) = b (an error with one argument)      *)
(*   fail(..)   = error                 sym(..) = the string "read"        *)
(*   isint(a..) = a is an integer       any other name: not registered     *)
(* An error of the function, or an unregistered name, is an evaluation     *)
(* error; a closure is never a valid argument.                             *)
(***************************************************************************)
ExternNames == {"id", "second", "fail", "sym", "isint"}
Extern(f, a, hasB, b) ==
    CASE f = "id"     -> a
      [] f = "second" -> IF hasB THEN b ELSE Err
      [] f = "fail"   -> Err
      [] f = "sym"    -> Str("read")
      [] f = "isint"  -> Bool(a.t = "int")
      [] OTHER -> Err

(***************************************************************************)
(* The stack machine.  An operation is                                     *)
(*   [o |-> "val", v]  [o |-> "var", n]  [o |-> "un", op]  [o |-> "bin", op]*)
(*   [o |-> "clo", params (sequence of names), body (sequence of ops)]     *)
(* Stack elements are values or closures [t |-> "CLO", params, body].      *)
(* Eval returns a value or Err; it is TOTAL: every op sequence, well       *)
(* formed or not, has a result.                                            *)
(***************************************************************************)
Clo(params, body) == [t |-> "CLO", params |-> params, body |-> body]

RECURSIVE Eval(_, _), Run(_, _, _), ApplyClosure(_, _, _, _), Quantify(_, _, _, _, _)

\* all / any over the elements (in their iteration order; with short-circuit)
Quantify(kind, elems, param, body, env) ==
    IF elems = <<>> THEN Bool(kind = "All")
    ELSE LET r == Eval(body, [x \in DOMAIN env \cup {param} |-> IF x = param THEN Head(elems) ELSE env[x]]) IN
         IF IsErr(r) THEN Err
         ELSE IF r.t # "bool" THEN Err
         ELSE IF kind = "All" /\ ~r.b THEN Bool(FALSE)
         ELSE IF kind = "Any" /\ r.b THEN Bool(TRUE)
         ELSE Quantify(kind, Tail(elems), param, body, env)

\* elements of a collection as a sequence, in the engine's (sorted) iteration order:
\* only used on collections whose elements give the same verdict in any order, or arrays
SeqOfSet(S) == CHOOSE s \in [1..Cardinality(S) -> S] : \A i, j \in 1..Cardinality(S) : i # j => s[i] # s[j]

ApplyClosure(op, left, clo, env) ==
    IF \E i \in 1..Len(clo.params) : clo.params[i] \in DOMAIN env THEN Err          \* shadowing
    ELSE CASE op = "LazyOr" ->
                IF Len(clo.params) # 0 \/ left.t # "bool" THEN Err
                ELSE IF left.b THEN Bool(TRUE) ELSE Eval(clo.body, env)
           [] op = "LazyAnd" ->
                IF Len(clo.params) # 0 \/ left.t # "bool" THEN Err
                ELSE IF ~left.b THEN Bool(FALSE) ELSE Eval(clo.body, env)
           [] op \in {"All", "Any"} ->
                IF Len(clo.params) # 1 THEN Err
                ELSE CASE left.t = "set" -> Quantify(op, SeqOfSet(left.e), clo.params[1], clo.body, env)
                       [] left.t = "arr" -> Quantify(op, left.e, clo.params[1], clo.body, env)
                       [] left.t = "map" ->
                            Quantify(op, LET s == SeqOfSet(left.e) IN [i \in 1..Len(s) |-> Arr(<<s[i][1], s[i][2]>>)],
                                     clo.params[1], clo.body, env)
                       [] OTHER -> Err
           [] OTHER -> Err                                                            \* any other operator given a closure

Run(ops, stack, env) ==
    IF ops = <<>> THEN
        IF Len(stack) = 1 /\ stack[1].t # "CLO" THEN stack[1] ELSE Err               \* InvalidStack
    ELSE LET op == Head(ops)  rest == Tail(ops)  n == Len(stack) IN
        CASE op.o = "val" -> Run(rest, Append(stack, op.v), env)
          [] op.o = "var" -> IF op.n \in DOMAIN env THEN Run(rest, Append(stack, env[op.n]), env) ELSE Err
          [] op.o = "clo" -> Run(rest, Append(stack, Clo(op.params, op.body)), env)
          [] op.o = "un" ->
                IF n < 1 \/ stack[n].t = "CLO" THEN Err
                ELSE LET r == IF op.op = "Ffi" THEN Extern(op.f, stack[n], FALSE, Null) ELSE Unary(op.op, stack[n]) IN
                     IF IsErr(r) THEN Err ELSE Run(rest, Append(SubSeq(stack, 1, n - 1), r), env)
          [] op.o = "bin" ->
                IF n < 2 \/ stack[n - 1].t = "CLO" THEN Err
                ELSE LET r == IF stack[n].t = "CLO" THEN (IF op.op = "Ffi" THEN Err ELSE ApplyClosure(op.op, stack[n - 1], stack[n], env))
                              ELSE IF op.op = "Ffi" THEN Extern(op.f, stack[n - 1], TRUE, stack[n])
                              ELSE Binary(op.op, stack[n - 1], stack[n]) IN
                     IF IsErr(r) THEN Err
                     ELSE IF r.t = "SKIP" THEN r
                     ELSE Run(rest, Append(SubSeq(stack, 1, n - 2), r), env)

Eval(ops, env) == Run(ops, <<>>, env)
=============================================================================
