------------------------------- MODULE ExprMC -------------------------------
(***************************************************************************)
(* C06: exhaustive tables for the expression language.  One TLC state =    *)
(* one operation sequence with its environment; the spec computes the      *)
(* result (a value or an error) and every state is replayed on             *)
(* Expression::evaluate.                                                   *)
(*   family "binary":  every binary operator x every pair of values        *)
(*   family "unary":   every unary operator x every value                  *)
(*   family "stack":   every sequence of <= 3 operations over a small      *)
(*                     alphabet (stack discipline, misplaced closures)     *)
(*   family "closure": lazy operators, all/any, nesting, shadowing, arity  *)
(*   family "compose": computed strings vs literals / collection members  *)
(*   family "extern":  extern functions (registered or not, 1 and 2 args) *)
(***************************************************************************)
EXTENDS Expr, ExprStr, TLC, Json

CONSTANTS Family, ExportOn

VARIABLES case_, seed
vars == <<case_, seed>>

T == Bool(TRUE)
F == Bool(FALSE)

Ints == {Small(0), Small(1), Small(-1), Small(2), Small(7), IMAX, IMIN, IntV(2, -2), IntV(-2, 1), IntV(1, 0)}
Values ==
    Ints
    \cup {Str(""), Str("a"), Str("ab"), Str("b"), Str("read")}
    \cup {Date(0), Date(1)}
    \cup {Bytes(""), Bytes("01")}
    \cup {T, F, Null}
    \cup {SetV({}), SetV({Small(1)}), SetV({Small(1), Small(2)}), SetV({Str("a")})}
    \cup {Arr(<<>>), Arr(<<Small(1)>>), Arr(<<Small(1), Str("a")>>), Arr(<<Arr(<<Small(1)>>)>>)}
    \cup {MapV({}), MapV({<<Str("a"), Small(1)>>}), MapV({<<Small(1), Null>>})}
    \* collections that differ from one above in a single (nested) element only: equality is structural to full depth
    \cup {MapV({<<Str("a"), Small(2)>>}), Arr(<<Small(2)>>), Arr(<<Arr(<<Small(2)>>)>>)}

Val(v)  == [o |-> "val", v |-> v]
Var(n)  == [o |-> "var", n |-> n]
Un(op)  == [o |-> "un", op |-> op]
Bin(op) == [o |-> "bin", op |-> op]
CloOp(params, body) == [o |-> "clo", params |-> params, body |-> body]

NoEnv == <<>>
Case(ops, env) == [ops |-> ops, env |-> env]

\* ---- closure family
ErrBody   == <<Val(Small(1)), Val(Small(0)), Bin("Div"), Val(Small(0)), Bin("Equal")>>      \* 1/0 === 0 : error
TrueBody  == <<Val(T)>>
FalseBody == <<Val(F)>>
IntBody   == <<Val(Small(1))>>
GtOne(p)  == <<Var(p), Val(Small(1)), Bin("GreaterThan")>>
EqA(p)    == <<Var(p), Val(Str("a")), Bin("HeterogeneousEqual")>>
IsPairA(p) == <<Var(p), Val(Small(0)), Bin("Get"), Val(Str("a")), Bin("HeterogeneousEqual")>>
Nested(p, q) == <<Val(Arr(<<Small(2)>>)), CloOp(<<q>>, <<Var(q), Var(p), Bin("GreaterThan")>>), Bin("Any")>>

LazyCases ==
    {Case(<<Val(l), CloOp(<<>>, b), Bin(op)>>, NoEnv) :
        l \in {T, F, Small(1), Null}, b \in {ErrBody, TrueBody, FalseBody, IntBody}, op \in {"LazyAnd", "LazyOr"}}
    \cup {Case(<<Val(T), CloOp(<<"p">>, TrueBody), Bin(op)>>, NoEnv) : op \in {"LazyAnd", "LazyOr"}}   \* arity

Collections == {SetV({}), SetV({Small(1), Small(2)}), SetV({Small(2), Small(7)}), SetV({Str("a")}),
                Arr(<<>>), Arr(<<Small(2), Small(7)>>), Arr(<<Small(1), Small(2)>>), Arr(<<Str("a"), Small(2)>>),
                MapV({}), MapV({<<Str("a"), Small(1)>>}), Small(1), Str("a"), Null}
QuantCases ==
    {Case(<<Val(c), CloOp(<<"p">>, b), Bin(op)>>, NoEnv) :
        c \in Collections, b \in {GtOne("p"), EqA("p"), IsPairA("p"), TrueBody, FalseBody, IntBody, ErrBody}, op \in {"All", "Any"}}
    \cup {Case(<<Val(Arr(<<Small(1)>>)), CloOp(ps, TrueBody), Bin(op)>>, NoEnv) : ps \in {<<>>, <<"p", "q">>}, op \in {"All", "Any"}}
    \* nesting: inner closure sees the outer parameter; same name = shadowing error
    \cup {Case(<<Val(Arr(<<Small(1), Small(3)>>)), CloOp(<<"p">>, Nested("p", q)), Bin(op)>>, NoEnv) : q \in {"q", "p"}, op \in {"All", "Any"}}
    \* shadowing is an error even when nothing gets bound: empty collections, at top level and nested
    \cup {Case(<<Val(c), CloOp(<<"p">>, TrueBody), Bin(op)>>, [x \in {"p"} |-> Small(5)]) :
            c \in {SetV({}), Arr(<<>>), MapV({}), SetV({Small(1)}), MapV({<<Str("a"), Small(1)>>})}, op \in {"All", "Any"}}
    \cup {Case(<<Val(Arr(<<Small(1)>>)), CloOp(<<"p">>, <<Val(c), CloOp(<<"p">>, TrueBody), Bin(op2)>>), Bin(op)>>, NoEnv) :
            c \in {SetV({}), Arr(<<>>), MapV({})}, op \in {"All", "Any"}, op2 \in {"All", "Any"}}
    \cup {Case(<<Val(T), CloOp(<<>>, <<Val(Arr(<<>>)), CloOp(<<"x">>, TrueBody), Bin("All")>>), Bin("LazyAnd")>>, [x \in {"x"} |-> Small(5)])}
    \* shadowing of a variable bound by the rule
    \cup {Case(<<Val(Arr(<<Small(1)>>)), CloOp(<<"p">>, TrueBody), Bin("All")>>, [x \in {"p"} |-> Small(5)])}
    \cup {Case(<<Val(Arr(<<Small(1)>>)), CloOp(<<"p">>, <<Var("p"), Var("x"), Bin("LessThan")>>), Bin("Any")>>, [x \in {"x"} |-> Small(5)])}
    \* a closure where a plain operator is expected, and the other way round
    \cup {Case(<<Val(Small(1)), CloOp(<<>>, TrueBody), Bin(op)>>, NoEnv) : op \in {"Add", "Equal", "Contains", "HeterogeneousEqual"}}
    \cup {Case(<<CloOp(<<>>, TrueBody), Val(T), Bin("LazyAnd")>>, NoEnv), Case(<<CloOp(<<>>, TrueBody)>>, NoEnv),
          Case(<<CloOp(<<>>, TrueBody), Un("Negate")>>, NoEnv), Case(<<Var("nope")>>, NoEnv)}

\* several closure-taking operators in ONE expression: a parameter is bound only inside its own closure -
\* after a quantifier (whether it ran over the whole collection or stopped early) the same name can be used
\* again by a sibling, and reading it outside is an unknown variable
SibColls == {Arr(<<Small(1), Small(2)>>), Arr(<<Small(2), Small(7)>>), SetV({Small(1), Small(2)}), Arr(<<>>), MapV({<<Str("a"), Small(1)>>})}
SibRights == {<<Val(Arr(<<Small(7)>>)), CloOp(<<"p">>, GtOne("p")), Bin("Any")>>,
              <<Val(Arr(<<Small(1), Small(7)>>)), CloOp(<<"p">>, GtOne("p")), Bin("All")>>,
              <<Val(Arr(<<Small(7)>>)), CloOp(<<"q">>, GtOne("q")), Bin("All")>>,
              <<Var("p"), Val(Small(0)), Bin("GreaterThan")>>,
              TrueBody}
SiblingCases ==
    {Case(<<Val(c), CloOp(<<"p">>, GtOne("p")), Bin(q1), CloOp(<<>>, rhs), Bin(lz)>>, NoEnv) :
        c \in SibColls, q1 \in {"All", "Any"}, lz \in {"LazyOr", "LazyAnd"}, rhs \in SibRights}
    \cup {Case(<<Val(c), CloOp(<<"p">>, GtOne("p")), Bin(q1)>> \o rhs \o <<Bin(cmp)>>, NoEnv) :
            c \in SibColls, q1 \in {"All", "Any"}, rhs \in SibRights, cmp \in {"Equal", "And"}}
    \cup {Case(<<Val(c), CloOp(<<"p">>, GtOne("p")), Bin(q1), Var("p"), Bin("HeterogeneousEqual")>>, NoEnv) : c \in SibColls, q1 \in {"All", "Any"}}

\* ---- stack family: all sequences of length <= 3 over a small alphabet
Alphabet == {Val(Small(1)), Val(T), Un("Negate"), Un("Length"), Bin("Add"), Bin("And"), Bin("LazyOr"), CloOp(<<>>, TrueBody)}
StackCases ==
    {Case(<<>>, NoEnv)} \cup {Case(<<a>>, NoEnv) : a \in Alphabet}
    \cup {Case(<<a, b>>, NoEnv) : a \in Alphabet, b \in Alphabet}
    \cup {Case(<<a, b, c>>, NoEnv) : a \in Alphabet, b \in Alphabet, c \in Alphabet}

UnaryCases  == {Case(<<Val(v), Un(op)>>, NoEnv) : v \in Values, op \in UnaryOps}

\* ---- extern family: registered and unregistered functions, one and two arguments, a result that is a
\* default symbol, results fed to other operators, closures as arguments
UnF(f)  == [o |-> "un", op |-> "Ffi", f |-> f]
BinF(f) == [o |-> "bin", op |-> "Ffi", f |-> f]
ExtVals == {Small(1), Str("a"), Str("read"), T, Null, Arr(<<Small(1)>>), SetV({Str("a")})}
ExternCases ==
    {Case(<<Val(v), UnF(f)>>, NoEnv) : v \in ExtVals, f \in ExternNames \cup {"nope"}}
    \cup {Case(<<Val(a), Val(b), BinF(f)>>, NoEnv) : a \in ExtVals, b \in ExtVals, f \in ExternNames \cup {"nope"}}
    \cup {Case(<<Val(v), UnF("sym"), Val(Str(z)), Bin(op)>>, NoEnv) : v \in {Small(1)}, z \in {"read", "re", "a"}, op \in {"Equal", "NotEqual", "HeterogeneousEqual", "Add", "Prefix"}}
    \cup {Case(<<Val(c), Val(Small(1)), UnF("sym"), Bin(op)>>, NoEnv) :
            c \in {Arr(<<Str("read")>>), SetV({Str("read")}), MapV({<<Str("read"), Small(1)>>})}, op \in {"Contains", "Get"}}
    \cup {Case(<<Val(v), UnF("id"), UnF("id"), Un("Length")>>, NoEnv) : v \in ExtVals}
    \cup {Case(<<Val(Small(1)), CloOp(<<>>, TrueBody), BinF(f)>>, NoEnv) : f \in {"id", "nope"}}
    \cup {Case(<<CloOp(<<>>, TrueBody), UnF("id")>>, NoEnv), Case(<<UnF("id")>>, NoEnv), Case(<<Val(Small(1)), BinF("id")>>, NoEnv)}
    \cup {Case(<<Val(Arr(<<Small(1), Small(2)>>)), CloOp(<<"p">>, <<Var("p"), UnF("isint")>>), Bin(op)>>, NoEnv) : op \in {"All", "Any"}}
    \cup {Case(<<Val(T), CloOp(<<>>, <<Val(Small(1)), UnF(f)>>), Bin("LazyOr")>>, NoEnv) : f \in {"fail", "nope"}}
    \cup {Case(<<Val(F), CloOp(<<>>, <<Val(Small(1)), UnF(f)>>), Bin("LazyOr")>>, NoEnv) : f \in {"fail", "isint"}}

\* ---- compose family: a string COMPUTED during evaluation is the same value as that string written as a
\* literal, held in a collection, used as a map key or bound by the rule - whatever the string is
\* (implementations intern strings; "read" is one of the strings every symbol table starts with)
EqOps == {"Equal", "NotEqual", "HeterogeneousEqual", "HeterogeneousNotEqual"}
ComposeCases ==
    {Case(<<Val(Str(x)), Val(Str(y)), Bin("Add"), Val(Str(z)), Bin(op)>>, NoEnv) : x \in Strings, y \in Strings, z \in Strings, op \in EqOps}
    \cup {Case(<<Val(Str(z)), Val(Str(x)), Val(Str(y)), Bin("Add"), Bin(op)>>, NoEnv) : x \in Strings, y \in Strings, z \in Strings, op \in EqOps}
    \cup {Case(<<Val(c), Val(Str(x)), Val(Str(y)), Bin("Add"), Bin(op)>>, NoEnv) :
            x \in Strings, y \in Strings, op \in {"Contains", "Get"},
            c \in UNION {{Arr(<<Str(z)>>), SetV({Str(z)}), MapV({<<Str(z), Small(1)>>})} : z \in {"ab", "read", "a"}}}
    \cup {Case(<<Var("v"), Val(Str(x)), Val(Str(y)), Bin("Add"), Bin(op)>>, [n \in {"v"} |-> Str(z)]) :
            x \in Strings, y \in Strings, z \in Strings, op \in EqOps}
    \cup {Case(<<Val(Str(x)), Val(Str(y)), Bin("Add"), Val(Str(x2)), Val(Str(y2)), Bin("Add"), Bin(op)>>, NoEnv) :
            x \in Strings, y \in Strings, x2 \in Strings, y2 \in Strings, op \in {"Equal", "HeterogeneousNotEqual"}}

Init ==
    /\ seed \in IF Family = "binary" THEN BinaryOps ELSE {"-"}
    /\ case_ = Case(<<>>, NoEnv)

Next ==
    /\ seed # "done"
    /\ seed' = "done"
    /\ CASE Family = "binary"  -> \E a \in Values, b \in Values : case_' = Case(<<Val(a), Val(b), Bin(seed)>>, NoEnv)
         [] Family = "unary"   -> case_' \in UnaryCases
         [] Family = "stack"   -> case_' \in StackCases
         [] Family = "closure" -> case_' \in (LazyCases \cup QuantCases \cup SiblingCases)
         [] Family = "compose" -> case_' \in ComposeCases
         [] Family = "extern"  -> case_' \in ExternCases

Spec == Init /\ [][Next]_vars
Ready == seed = "done"

Result == Eval(case_.ops, case_.env)

\* totality: every case has a result (a value, an error, or SKIP for operand pairs the
\* anchored arithmetic does not cover)
Total == Ready => Result.t \in Types \cup {"ERR", "SKIP"}

\* type strictness on the binary table
TypeStrict ==
    (Ready /\ Family = "binary") =>
        LET a == case_.ops[1].v  b == case_.ops[2].v  op == case_.ops[3].op IN
        ~Accepts(op, a.t, b.t) => IsErr(Result)

\* accepted type pairs only fail for arithmetic reasons
AcceptedOnlyFailArith ==
    (Ready /\ Family = "binary") =>
        LET a == case_.ops[1].v  b == case_.ops[2].v  op == case_.ops[3].op IN
        (Accepts(op, a.t, b.t) /\ IsErr(Result)) => op \in {"Add", "Sub", "Mul", "Div"}

\* laziness: the right side of `false && e` / `true || e` does not matter, even when it errors
Lazy ==
    (Ready /\ Family = "closure" /\ Len(case_.ops) = 3 /\ case_.ops[3].o = "bin" /\ case_.ops[2].o = "clo" /\ case_.ops[1].o = "val") =>
        /\ (case_.ops[3].op = "LazyAnd" /\ VEq(case_.ops[1].v, F) /\ case_.ops[2].params = <<>>) => VEq(Result, F)
        /\ (case_.ops[3].op = "LazyOr" /\ VEq(case_.ops[1].v, T) /\ case_.ops[2].params = <<>>) => VEq(Result, T)

Export ==
    (ExportOn /\ Ready /\ Result.t # "SKIP") =>
        PrintT(<<"EXPR", ToJson([ops |-> case_.ops, env |-> case_.env, expect |-> Result])>>)
=============================================================================
