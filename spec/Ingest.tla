------------------------------- MODULE Ingest -------------------------------
(***************************************************************************)
(* C09: untrusted data.  The validation pipeline                           *)
(*    bytes --Decode--> wire --Verify--> token --Load--> authorizer        *)
(*          --Run/Authorize--> result                                      *)
(* and the accessors available at each stage.  A FAULT is one adversarial  *)
(* property of an otherwise valid, CORRECTLY SIGNED token (the signature   *)
(* does not gate the path); CaughtAt says which stage must answer with an  *)
(* error at the latest.  There is no "crashed" state: every operation      *)
(* enabled in a reachable state yields Ok or Err (Total).                  *)
(***************************************************************************)
EXTENDS Naturals, Sequences, FiniteSets, TLC, Json

CONSTANTS ExportOn

Stages == <<"decode", "load", "run", "never">>
StageNo(s) == CHOOSE i \in 1..4 : Stages[i] = s

Faults == {"none",
           "symbol_out_of_range_fact", "symbol_out_of_range_rule_body", "predicate_name_out_of_range",
           "key_out_of_range_rule_scope", "key_out_of_range_block_scope", "head_variable_unbound",
           "expr_empty", "expr_binary_underflow", "expr_leftover", "expr_closure_first", "expr_unknown_op_kind",
           "expr_ffi_name_out_of_range", "closure_two_params",
           "version_0", "version_2", "version_7", "version_max_u32", "version_absent",
           "redeclares_default_symbol", "redeclares_earlier_symbol", "duplicate_public_key",
           "term_empty_oneof", "op_empty_oneof", "scope_empty_oneof", "mapkey_empty_oneof",
           "set_with_variable", "set_nested", "set_mixed_types", "check_no_queries", "check_unknown_kind",
           "deep_array_nesting", "huge_symbol_table", "payload_garbage", "payload_empty",
           \* term values at the ends of their wire types: dates are 64-bit numbers of seconds
           "date_year_minus_1", "date_year_minus_9999", "date_below_year_minus_9999", "date_i64_min", "date_u64_max",
           "date_year_10000", "date_i64_max", "int_i64_min_fact", "bytes_empty", "string_empty_symbol",
           \* the version of a saved WORLD (snapshot positions only), and saved counters at the ends of their types
           "world_version_0", "world_version_2", "world_version_7", "world_version_absent", "world_iterations_max", "world_limits_zero",
           "world_execution_time_max", "world_generated_unknown_origin"}

\* ADVERSARIAL BUT WELL-FORMED contents: expressions whose operands are the extreme values of the term
\* types.  They pass every validation stage; evaluating them must yield a value or an error ("run").
\* fault = "eval": the binary operator `op` applied to a and b, written in the expression ("literal") or
\* supplied by two facts and joined ("fact"); fault = "eval_snippet": one of the expressions below.
EvalOps == {"+", "-", "*", "/", "&", "|", "^", "<", "<=", ">", ">=", "===", "!=="}
Extremes == {"-9223372036854775808", "-9223372036854775807", "-1", "0", "1", "2", "9223372036854775807"}
EvalWhere == {"literal", "fact"}
EvalSnippets == {
    "\"a\".matches(\"(\")", "\"a\".matches(\"a{1000}{1000}{1000}\")", "\"aaaaaaaaaaaaaaaaaaaaaaaa\".matches(\"(a*)*b\")",
    "[1, 2].get(99) == null", "[1].get(-1) == null", "[1].get(9223372036854775807) == null", "{\"a\": 1}.get(1) == null",
    "\"abc\".length() / 0 == 0", "1.length() == 1", "{1}.contains({1})", "hex:.length() == 0", "\"\".length() == 0",
    "[1].all($p -> $p.length() > 0)", "[1].any($p -> [2].any($p -> true))", "[[1]].any($p -> $p.any($q -> $q / 0 == 1))",
    "(1 / 0 == 1).try_or(true)", "1 / 0 == 1 || true", "true || 1 / 0 == 1", "false && 1 / 0 == 1",
    "9999-12-31T23:59:59Z > 0001-01-01T00:00:00Z", "1.type() == \"integer\"", "null == null", "{}.length() == 0",
    "[].length() == 0", "{1, 2}.intersection({2}).length() == 1", "\"a\" + \"b\" == \"ab\"",
    "\"a\".contains(\"\")", "\"\".starts_with(\"\")", "!true", "(!false).type() == \"bool\"",
    "1.extern::nope()", "1.extern::nope(2)", "{\"a\": [1, {\"b\": null}]}.get(\"a\").get(1).get(\"b\") == null"}

\* DATALOG SOURCE is an entry point too: syntactically plausible text whose literals are out of range,
\* malformed or not what their type requires (fault = "source", position "source")
SourceSnippets == {
    "check if f($x) trusting ed25519/00", "check if f($x) trusting secp256r1/00", "check if f($x) trusting ed25519/",
    "check if f($x) trusting ed25519/ffffffffffffffffffffffffffffffffffffffffffffffffffffffffffffffffff",
    "check if f($x) trusting ed25519/0200000000000000000000000000000000000000000000000000000000000000",
    "check if f($x) trusting secp256r1/02ffffffffffffffffffffffffffffffffffffffffffffffffffffffffffffffff",
    "check if f($x) trusting secp256r1/0000000000000000000000000000000000000000000000000000000000000000",
    "r($x) <- f($x) trusting ed25519/00", "allow if true trusting ed25519/00", "allow if true trusting ed25519/zz", "deny if f($x) trusting secp256r1/0",
    "f(9223372036854775808)", "f(-9223372036854775809)", "f(99999999999999999999999999)", "f(-0)",
    "f(2020-13-45T99:99:99Z)", "f(0000-00-00T00:00:00Z)", "f(99999-01-01T00:00:00Z)", "f(hex:0)", "f(hex:zz)", "f(hex:)",
    "f({})", "f({{1}})", "f({\"a\": {1}})", "f({1, \"a\"})", "f([[[[[[[[[[1]]]]]]]]]])", "f({\"a\": 1, \"a\": 2})", "f({1, 1})",
    "check if 1.extern::()", "check if $x", "check if f($x), $y == 1", "r($y) <- f($x)", "r($x) <- f(1)", "check if [1].all($x -> [2].all($x -> true))",
    "f(\"unterminated", "check if", ";;;;", "", "f(1) trusting authority", "check all", "reject if true or", "f($x)", "f(1", "f 1)", "check if f($x) trusting",
    "check if f($x) trusting previous, previous", "check if f($x) trusting {k}", "f({p})", "check if true trusting authority trusting previous"}

\* the latest stage at which the fault may surface as an error ("never": harmless, must be served)
CaughtAt(f) ==
    CASE f = "none" -> "never"
      [] f \in {"eval", "eval_snippet"} -> "run"
      [] f = "source" -> "never"                      \* unspecified: parsed or refused, never a crash
      [] f \in {"redeclares_default_symbol", "redeclares_earlier_symbol", "duplicate_public_key", "payload_garbage", "deep_array_nesting"} -> "decode"
      [] f \in {"expr_empty", "expr_binary_underflow", "expr_leftover", "expr_closure_first", "closure_two_params", "expr_ffi_name_out_of_range"} -> "run"
      [] f \in {"check_no_queries", "huge_symbol_table", "payload_empty", "set_mixed_types", "version_absent",
                "date_year_minus_1", "date_year_minus_9999", "date_below_year_minus_9999", "date_i64_min", "date_u64_max",
                "date_year_10000", "date_i64_max", "int_i64_min_fact", "bytes_empty", "string_empty_symbol",
           \* the version of a saved WORLD (snapshot positions only), and saved counters at the ends of their types
           "world_version_0", "world_version_2", "world_version_7", "world_version_absent", "world_iterations_max", "world_limits_zero",
           "world_execution_time_max", "world_generated_unknown_origin"} -> "never"   \* unspecified: served or refused, never a crash
      [] OTHER -> "load"

\* where the adversarial block sits: in a signed token, or inside an authorizer SNAPSHOT (a token block
\* of the saved world, or the authorizer's own block) - snapshots are external data too
TokenPositions == {"authority", "block1", "third_party"}
SnapPositions == {"snapshot_block", "snapshot_authorizer"}
Positions == TokenPositions \cup SnapPositions

\* versions outside the supported range and references that cannot be resolved must be refused BEFORE evaluation
\* (a symbol repeated inside ONE block's own table, as opposed to an earlier block's, is left unspecified)
\* (for snapshots only the no-crash part of the property applies: when a restored world must refuse is not fixed)
Unspecified(f, pos) == (f = "redeclares_earlier_symbol" /\ pos # "block1") \/ pos \in SnapPositions \/ pos = "source"
MustBeRefusedBeforeRun(f) == CaughtAt(f) \in {"decode", "load"}

Ops == {"print", "print_block_source", "block_version", "block_symbols", "block_public_keys", "block_external_key",
        "context", "revocation_identifiers", "authorizer", "authorize", "query", "dump_code", "print_world",
        "snapshot_roundtrip", "append", "seal", "third_party_request", "unverified_sweep"}
Indices == {0, 1, 2, 3, 99}     \* 99 stands for usize::MAX

VARIABLES c
Init == \/ c \in {[fault |-> f, pos |-> p] : f \in Faults, p \in Positions}
        \/ c \in {[fault |-> "eval", pos |-> p, op |-> o, a |-> a, b |-> b, where |-> w] :
                     p \in Positions, o \in EvalOps, a \in Extremes, b \in Extremes, w \in EvalWhere}
        \/ c \in {[fault |-> "eval_snippet", pos |-> p, src |-> x] : p \in Positions, x \in EvalSnippets}
        \/ c \in {[fault |-> "source", pos |-> "source", src |-> x] : x \in SourceSnippets}
Next == UNCHANGED c
Spec == Init /\ [][Next]_c

\* outcome of the pipeline for this fault, as the set of admissible (stage, result) observations
Admissible ==
    LET s == CaughtAt(c.fault) IN
    [decode  |-> IF s = "decode" THEN {"err", "ok"} ELSE {"ok"},                 \* an earlier stage may already refuse...
     load    |-> IF s \in {"decode", "load"} THEN {"err"} ELSE IF s = "run" THEN {"ok", "err"} ELSE {"ok", "err"},
     run     |-> IF s = "never" /\ c.fault = "none" THEN {"ok"} ELSE {"ok", "err"}]

Total == \A st \in {"decode", "load", "run"} : Admissible[st] # {}
RefusedEarly == MustBeRefusedBeforeRun(c.fault) => Admissible.load = {"err"}
MustRefuse == MustBeRefusedBeforeRun(c.fault) /\ ~Unspecified(c.fault, c.pos)

Export ==
    ExportOn => PrintT(<<"INGEST", ToJson([c |-> c, caught |-> CaughtAt(c.fault), refuse_before_run |-> MustRefuse,
                                           ops |-> Ops, indices |-> Indices])>>)
=============================================================================
