------------------------------ MODULE KeyCodec ------------------------------
(***************************************************************************)
(* C17: key and signature encodings.  A decision table over                *)
(*   encoding x kind x algorithm x algorithm assumed by the decoder x      *)
(*   corruption  ->  RoundTrips | MustFail | FailOrDifferent               *)
(* (a corrupted body may still be a valid key, but never the original),    *)
(* and the ideal signature functionality: a signature verifies only under  *)
(* the matching key and message, in its exact encoding.                    *)
(***************************************************************************)
EXTENDS Naturals, TLC, Json

CONSTANTS ExportOn

Algs == {"ed", "p256"}
Kinds == {"private", "public"}
Encodings == {"raw", "hex", "prefixed", "der", "pem", "proto"}
\* unknown_prefix_*: the algorithm is named by something that is no algorithm at all
\* (protobuf tag 2, -1, 255; string prefix "rsa", "ed25519x", "")
UnknownPrefix == {"unknown_prefix_a", "unknown_prefix_b", "unknown_prefix_c"}
\* flip_pubkey: PKCS#8 documents of private keys also carry the public key; one bit of THAT field is flipped, so
\* the document contradicts itself (the private key no longer generates the public key it announces)
Corruptions == {"none", "truncate", "extend", "empty", "flip_first", "flip_last", "wrong_prefix", "flip_pubkey"} \cup UnknownPrefix
DecodeAs == {"same", "other", "auto"}

\* which cells exist in the API
Exists(enc, kind, as) ==
    /\ (enc = "proto") => (kind = "public" /\ as = "auto")          \* the protobuf key carries its algorithm
    /\ (enc = "prefixed") => as = "auto"                             \* "ed25519/.." "secp256r1/.." strings name the algorithm
    /\ (enc \in {"raw", "hex"}) => as # "auto"                       \* raw material needs the algorithm from the caller
    /\ TRUE

Expect(enc, kind, alg, as, cor) ==
    CASE cor = "none" ->
            IF as \in {"same", "auto"} THEN "RoundTrips"
            ELSE IF enc \in {"raw", "hex"} /\ kind = "private" THEN "FailOrDifferent"   \* 32 raw bytes carry no algorithm
            ELSE "MustFail"                                                              \* lengths / OIDs differ
      [] cor = "empty" -> "MustFail"
      \* exact lengths, complete containers - except that raw material cut or padded by one byte can
      \* have the length the OTHER algorithm expects (33-byte secp256r1 point -> 32 bytes)
      [] cor \in {"truncate", "extend"} -> IF as = "other" /\ enc \in {"raw", "hex"} THEN "FailOrDifferent" ELSE "MustFail"
      [] cor = "wrong_prefix" ->
            IF enc \in {"prefixed", "proto"} THEN (IF kind = "private" /\ enc = "prefixed" THEN "FailOrDifferent" ELSE "MustFail")
            ELSE "NotApplicable"
      \* a self-contradictory document is refused, never read as the key its private part describes
      [] cor = "flip_pubkey" -> IF enc \in {"der", "pem"} /\ kind = "private" THEN "MustFail" ELSE "NotApplicable"
      \* an algorithm name / tag outside the two known ones is never read as one of them
      [] cor \in UnknownPrefix -> IF enc \in {"prefixed", "proto"} THEN "MustFail" ELSE "NotApplicable"
      [] cor \in {"flip_first", "flip_last"} ->
            IF as = "other" THEN (IF enc \in {"raw", "hex"} /\ kind = "private" THEN "FailOrDifferent" ELSE "MustFail")
            ELSE "FailOrDifferent"

VARIABLES c
Init == c \in {[enc |-> e, kind |-> k, alg |-> a, as |-> d, cor |-> x] :
                  e \in Encodings, k \in Kinds, a \in Algs, d \in DecodeAs, x \in Corruptions}
Next == UNCHANGED c
Spec == Init /\ [][Next]_c

InTable == Exists(c.enc, c.kind, c.as) /\ Expect(c.enc, c.kind, c.alg, c.as, c.cor) # "NotApplicable"

\* an uncorrupted key decoded as what it is always round-trips; every cell has a verdict
Sane == InTable => Expect(c.enc, c.kind, c.alg, c.as, c.cor) \in {"RoundTrips", "MustFail", "FailOrDifferent"}
OnlyIntactRoundTrips == (InTable /\ Expect(c.enc, c.kind, c.alg, c.as, c.cor) = "RoundTrips") => c.cor = "none"

\* ---- signatures: [signer, verifier, message altered?, signature transformation]
\* verifier key "weak": a public key that no private key generates (ed25519: the points of small order,
\* secp256r1: the point at infinity) - in the ideal functionality nobody ever signed under it, so nothing
\* verifies; signature "crafted": bytes made without any private key (ed25519: R of small order, S = 0;
\* secp256r1: r, s in {0, 1})
SigCases == {[alg |-> a, key |-> k, msg |-> m, sig |-> s] :
                a \in Algs, k \in {"same", "other", "other_alg", "weak"}, m \in {"same", "altered", "empty"},
                s \in {"intact", "truncate", "extend", "empty", "flip_first", "flip_last", "reencoded", "crafted"}}
SigVerifies(s) == s.key = "same" /\ s.msg = "same" /\ s.sig = "intact"

Export ==
    (ExportOn /\ InTable) => PrintT(<<"KEY", ToJson([c |-> c, expect |-> Expect(c.enc, c.kind, c.alg, c.as, c.cor)])>>)
ExportSigs ==
    (ExportOn /\ c = [enc |-> "raw", kind |-> "private", alg |-> "ed", as |-> "same", cor |-> "none"]) =>
        \A s \in SigCases : PrintT(<<"SIG", ToJson([s |-> s, verifies |-> SigVerifies(s)])>>)
=============================================================================
