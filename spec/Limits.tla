------------------------------- MODULE Limits -------------------------------
(***************************************************************************)
(* C10: evaluation budgets.  For the budgets only the SHAPE of a program   *)
(* matters: the number of facts after each pass of the naive evaluation,   *)
(* levels = <<n0, n1, ..., nP>> (strictly increasing; P growing passes).   *)
(*                                                                         *)
(* The authorizer is a state machine: calls Run / Authorize / Query /      *)
(* QueryAll each continue the evaluation where the previous call stopped,  *)
(* one Pass step at a time, under budgets (maxFacts, maxIter) that are     *)
(* CUMULATIVE over the calls.  The clock is environment nondeterminism     *)
(* (Tick) and is only checked for structure: a budget test separates any   *)
(* two passes.                                                             *)
(*                                                                         *)
(* At the exact boundary (facts = maxFacts, iterations = maxIter) the      *)
(* property does not say whether the call succeeds, so both are admitted;  *)
(* strictly inside the budgets a call must succeed, strictly outside it    *)
(* must fail with a run-limit error, and nothing is evaluated after        *)
(* exhaustion.                                                             *)
(***************************************************************************)
EXTENDS Naturals, Sequences, FiniteSets, TLC, Json

CONSTANTS TimeMenu,       \* set of <<max_time, cost of one pass, cost of evaluating one authorize / query call>> in abstract ticks
          LevelsMenu,     \* set of level sequences
          FactLimits, IterLimits,   \* sets of naturals
          CallSeqs,       \* set of sequences of call names
          ExportOn

VARIABLES sc,        \* the scenario: [levels, mf, mi, mt, cost, qcost, calls]
          elapsed,   \* abstract clock: ticks consumed by the passes performed so far
          pos,       \* index into levels reached so far (1 = initial facts)
          iters,     \* cumulative number of growing passes performed
          status,    \* "idle" | "running" | "exhausted"
          ncall,     \* calls completed
          results    \* outcome of each completed call: "ok" | "limit"

vars == <<sc, pos, iters, status, ncall, results, elapsed>>

Facts == sc.levels[pos]
AtFixpoint == pos = Len(sc.levels)

Init ==
    /\ sc \in {[levels |-> l, mf |-> f, mi |-> i, mt |-> t[1], cost |-> t[2], qcost |-> t[3], calls |-> c] :
                 l \in LevelsMenu, f \in FactLimits, i \in IterLimits, c \in CallSeqs, t \in TimeMenu}
    \* slow calls are combined with rule-free programs and with sequences of evaluating calls only
    /\ (sc.qcost > 0) => (Len(sc.levels) = 1 /\ \A k \in 1..Len(sc.calls) : sc.calls[k] \in {"authorize", "query", "query_all"})
    /\ elapsed = 0
    /\ pos = 1 /\ iters = 0 /\ status = "idle" /\ ncall = 0 /\ results = <<>>

NextIsSnapshot == ncall < Len(sc.calls) /\ sc.calls[ncall + 1] = "snapshot"

\* saving the authorizer and continuing with the restored copy: evaluates nothing and keeps the whole
\* budget state - facts, passes performed, exhaustion
Snapshot ==
    /\ status \in {"idle", "exhausted"} /\ NextIsSnapshot
    /\ results' = Append(results, "ok") /\ ncall' = ncall + 1
    /\ UNCHANGED <<sc, pos, iters, status, elapsed>>

\* a call starts (or resumes) the evaluation
StartCall ==
    /\ status = "idle" /\ ncall < Len(sc.calls) /\ ~NextIsSnapshot
    /\ status' = "running"
    /\ UNCHANGED <<sc, pos, iters, ncall, results, elapsed>>

\* budgets are tested before any unit of work; the time budget is used up once the passes
\* performed so far have consumed max_time (each pass of a slow program costs `cost` ticks)
OverBudget == Facts > sc.mf \/ (~AtFixpoint /\ iters >= sc.mi) \/ (~AtFixpoint /\ elapsed >= sc.mt)

\* one growing pass of the fixpoint computation
Pass ==
    /\ status = "running" /\ ~AtFixpoint /\ ~OverBudget
    /\ pos' = pos + 1 /\ iters' = iters + 1 /\ elapsed' = elapsed + sc.cost
    /\ UNCHANGED <<sc, status, ncall, results>>

\* the time budget is cumulative over the CALLS too: evaluating the checks and policies of authorize, or a
\* query, takes qcost ticks (a slow authorizer).  Such a call only starts while time is left, what it
\* consumes counts for the later calls, and (the clock being the machine's) it may always time out.
CallName == sc.calls[ncall + 1]
SlowCall == sc.qcost > 0 /\ ncall < Len(sc.calls) /\ CallName \in {"authorize", "query", "query_all"}

Finish(outcome, st, ticks) ==
    /\ results' = Append(results, outcome)
    /\ ncall' = ncall + 1
    /\ status' = st
    /\ elapsed' = elapsed + ticks
    /\ UNCHANGED <<sc, pos, iters>>

\* the call returns Ok: fixpoint reached within the budgets
ReturnOk ==
    /\ status = "running" /\ AtFixpoint /\ Facts <= sc.mf
    /\ SlowCall => elapsed < sc.mt
    /\ Finish("ok", "idle", IF SlowCall THEN sc.qcost ELSE 0)

\* the call returns a run-limit error; the authorizer stays exhausted for good.
\* At the exact boundary the implementation may report exhaustion one step early.
ReturnLimit ==
    /\ status = "running"
    /\ OverBudget \/ Facts >= sc.mf \/ (iters >= sc.mi /\ iters > 0) \/ elapsed >= sc.mt \/ SlowCall
    /\ Finish("limit", "exhausted", 0)

\* every call on an exhausted authorizer fails at once, without evaluating anything
FailFast ==
    /\ status = "exhausted" /\ ncall < Len(sc.calls) /\ ~NextIsSnapshot
    /\ Finish("limit", "exhausted", 0)

Next == StartCall \/ Pass \/ ReturnOk \/ ReturnLimit \/ FailFast \/ Snapshot
Spec == Init /\ [][Next]_vars

Done == ncall = Len(sc.calls)

(***************************************************************************)
(* Properties of the design.                                               *)
(***************************************************************************)
\* success only within the budgets, cumulatively
OkWithinBudget ==
    \A i \in 1..Len(results) : (results[i] = "ok" /\ sc.calls[i] # "snapshot") => (iters <= sc.mi /\ Facts <= sc.mf)
NeverOverIter == iters <= sc.mi
\* nothing happens after exhaustion
ExhaustedIsFinal ==
    \A i \in 1..Len(results) : \A j \in 1..Len(results) :
        (i < j /\ results[i] = "limit" /\ sc.calls[j] # "snapshot") => results[j] = "limit"
\* no stuck state: a running call can always make a step
NoStuck == status = "running" => (ENABLED Pass \/ ENABLED ReturnOk \/ ENABLED ReturnLimit)

\* the set of admissible result sequences of a scenario is the set of `results` in Done states;
\* exported one line per terminal state, grouped by the driver
Export ==
    (ExportOn /\ Done) =>
        PrintT(<<"LIM", ToJson([sc |-> sc, results |-> results, iters |-> iters, facts |-> Facts])>>)

\* ---- constants for cfg files
\* chain programs: L growing passes of +1 fact from n0 initial facts; wide: one pass adding k*k facts
LevelsSmall == {<<3>>, <<7>>, <<4, 5>>, <<5, 6, 7>>, <<6, 7, 8, 9>>, <<3, 12>>, <<6, 7, 8, 9, 10, 11>>}
\* fast programs under a generous clock, and slow programs (one pass outlasts max_time)
\* ... and fast programs with slow calls: every authorize / query costs 2 ticks out of 5
Times == {<<1000, 0, 0>>, <<1, 2, 0>>, <<5, 0, 2>>}
FactLims == {0, 3, 5, 7, 9, 12, 1000}
IterLims == {0, 1, 2, 3, 5, 1000}
Calls1 == {<<"authorize">>, <<"run">>, <<"query">>}
Calls3 == {<<"authorize">>, <<"run", "authorize">>, <<"authorize", "authorize", "authorize">>,
           <<"run", "query", "authorize">>, <<"query_all", "authorize">>, <<"authorize", "query">>,
           <<"run", "run", "run", "authorize">>, <<"query_all", "query_all", "query_all", "authorize">>,
           <<"snapshot", "authorize">>, <<"authorize", "snapshot", "authorize">>, <<"run", "snapshot", "run", "authorize">>,
           <<"query", "snapshot", "snapshot", "authorize">>}
\* thorough tier: more shapes (longer chains, two wide passes), every limit around every level, longer call sequences
LevelsBig == LevelsSmall \cup {<<1>>, <<8, 9, 10, 11, 12, 13, 14, 15>>, <<4, 20>>, <<10, 59>>, <<10, 11, 12>>}
FactLimsBig == {0, 1, 2, 3, 4, 5, 6, 7, 8, 9, 10, 11, 12, 13, 14, 15, 16, 19, 20, 21, 58, 59, 60, 1000}
IterLimsBig == {0, 1, 2, 3, 4, 5, 6, 7, 8, 1000}
Calls5 == Calls3 \cup {<<"authorize", "run", "query", "query_all", "authorize">>, <<"run", "snapshot", "authorize", "snapshot", "authorize">>,
                       <<"query_all", "query_all">>, <<"query", "run">>, <<"snapshot", "snapshot", "run">>,
                       <<"authorize", "snapshot", "query", "snapshot", "query_all">>}
=============================================================================
