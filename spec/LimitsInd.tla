----------------------------- MODULE LimitsInd -----------------------------
(***************************************************************************)
(* C10, unbounded: the budget state machine of Limits.tla over integers    *)
(* only, for ANY program shape (each growing pass adds an arbitrary        *)
(* positive number of facts and may or may not reach the fixpoint), ANY    *)
(* limits and ANY number of calls.  IndInv is an inductive invariant       *)
(* (checked with Apalache: Init => IndInv, IndInv /\ Next => IndInv') and  *)
(* implies the safety properties of Limits.tla:                            *)
(*   - a call returns ok only within the cumulative budgets;               *)
(*   - the number of passes never exceeds max_iterations;                  *)
(*   - after exhaustion nothing is evaluated and nothing succeeds.         *)
(* The step relation is the one of Limits.tla with `levels[pos]` replaced  *)
(* by the current fact count and AtFixpoint by a boolean chosen by the     *)
(* environment when a pass ends.                                           *)
(***************************************************************************)
EXTENDS Integers

CONSTANTS
    \* @type: Int;
    MaxFacts,
    \* @type: Int;
    MaxIter

VARIABLES
    \* @type: Int;
    facts,
    \* @type: Int;
    iters,
    \* @type: Bool;
    fix,          \* the evaluation is at its fixpoint
    \* @type: Str;
    status,       \* "idle" | "running" | "exhausted"
    \* @type: Str;
    last,         \* outcome of the last completed call: "none" | "ok" | "limit"
    \* @type: Bool;
    okAfterLimit, \* history: some call returned ok after a call returned limit
    \* @type: Bool;
    everLimit

ConstInit == MaxFacts \in Nat /\ MaxIter \in Nat

Init ==
    /\ facts \in Nat /\ iters = 0 /\ fix \in BOOLEAN
    /\ status = "idle" /\ last = "none" /\ okAfterLimit = FALSE /\ everLimit = FALSE

OverBudget == facts > MaxFacts \/ (~fix /\ iters >= MaxIter)

StartCall ==
    /\ status = "idle" /\ status' = "running"
    /\ UNCHANGED <<facts, iters, fix, last, okAfterLimit, everLimit>>

Pass ==
    /\ status = "running" /\ ~fix /\ ~OverBudget
    /\ \E d \in Nat : d > 0 /\ facts' = facts + d
    /\ iters' = iters + 1
    /\ fix' \in BOOLEAN
    /\ UNCHANGED <<status, last, okAfterLimit, everLimit>>

ReturnOk ==
    /\ status = "running" /\ fix /\ facts <= MaxFacts
    /\ status' = "idle" /\ last' = "ok"
    /\ okAfterLimit' = (okAfterLimit \/ everLimit)
    /\ UNCHANGED <<facts, iters, fix, everLimit>>

ReturnLimit ==
    /\ status = "running"
    /\ OverBudget \/ facts >= MaxFacts \/ (iters >= MaxIter /\ iters > 0)
    /\ status' = "exhausted" /\ last' = "limit" /\ everLimit' = TRUE
    /\ UNCHANGED <<facts, iters, fix, okAfterLimit>>

FailFast ==
    /\ status = "exhausted" /\ last' = "limit"
    /\ UNCHANGED <<facts, iters, fix, status, okAfterLimit, everLimit>>

Next == StartCall \/ Pass \/ ReturnOk \/ ReturnLimit \/ FailFast

\* ---- the safety properties
OkWithinBudget == last = "ok" => (iters <= MaxIter /\ facts <= MaxFacts)
NeverOverIter == iters <= MaxIter \/ MaxIter = 0
ExhaustedIsFinal == ~okAfterLimit

\* ---- the inductive invariant
TypeOK ==
    /\ facts \in Nat /\ iters \in Nat /\ fix \in BOOLEAN
    /\ status \in {"idle", "running", "exhausted"} /\ last \in {"none", "ok", "limit"}
    /\ okAfterLimit \in BOOLEAN /\ everLimit \in BOOLEAN

IndInv ==
    /\ TypeOK
    /\ iters <= MaxIter \/ iters = 0
    /\ everLimit <=> status = "exhausted"
    /\ ~okAfterLimit
    /\ last = "ok" => (facts <= MaxFacts /\ fix /\ status # "exhausted")
    /\ (last = "ok" /\ status = "running") => fix

IndInit == ConstInit /\ IndInv
Safety == OkWithinBudget /\ ExhaustedIsFinal /\ (iters <= MaxIter \/ iters = 0)
=============================================================================
