---------------------------- MODULE LimitsTrace ----------------------------
(***************************************************************************)
(* Trace validation for C10: the per-pass events emitted by the hook in    *)
(* World::run_with_limits and the return of every public call, for many    *)
(* scenarios concatenated (a `scenario` event resets the state), must be   *)
(* a behaviour of the budget state machine of Limits.tla:                  *)
(*   - a growing pass happens only while the CUMULATIVE iteration budget   *)
(*     is not used up and the authorizer is not exhausted;                 *)
(*   - a call returns ok only at a fixpoint within the budgets;            *)
(*   - a call that returns a run-limit error leaves the authorizer         *)
(*     exhausted: no later pass, no later ok.                              *)
(***************************************************************************)
EXTENDS Naturals, Sequences, TLC, Json, IOUtils

Rec == ndJsonDeserialize(IOEnv.TRACE)

VARIABLES mf, mi, mt, cost, qcost, elapsed, facts, iters, exhausted, l,
          dev      \* deviations: trace positions whose event is NOT a step of Limits.tla
tvars == <<mf, mi, mt, cost, qcost, elapsed, facts, iters, exhausted, l, dev>>

TraceInit == mf = 0 /\ mi = 0 /\ mt = 0 /\ cost = 0 /\ qcost = 0 /\ elapsed = 0 /\ facts = 0 /\ iters = 0 /\ exhausted = FALSE /\ l = 1 /\ dev = <<>>

IsEvent(e) == l <= Len(Rec) /\ Rec[l].ev = e /\ l' = l + 1

TScenario ==
    /\ IsEvent("scenario")
    /\ mf' = Rec[l].mf /\ mi' = Rec[l].mi /\ mt' = Rec[l].mt /\ cost' = Rec[l].cost /\ qcost' = Rec[l].qcost /\ elapsed' = 0
    /\ facts' = Rec[l].levels[1] /\ iters' = 0 /\ exhausted' = FALSE
    /\ UNCHANGED dev

TCall == IsEvent("call") /\ UNCHANGED <<mf, mi, mt, cost, qcost, elapsed, facts, iters, exhausted, dev>>

\* a pass that found nothing new: allowed any time (it is how the fixpoint is detected)
TIterIdle ==
    /\ IsEvent("iter") /\ Rec[l].after = Rec[l].before
    /\ UNCHANGED <<mf, mi, mt, cost, qcost, elapsed, facts, iters, exhausted, dev>>

\* a growing pass = the Pass action of Limits.tla: only while not exhausted and within
\* the cumulative budgets
PassAllowed == ~exhausted /\ iters < mi /\ facts <= mf /\ elapsed < mt /\ Rec[l].before = facts

TIterGrow ==
    /\ IsEvent("iter") /\ Rec[l].after > Rec[l].before
    /\ facts' = Rec[l].after /\ iters' = iters + 1 /\ elapsed' = elapsed + cost
    /\ dev' = IF PassAllowed THEN dev ELSE Append(dev, l)
    /\ UNCHANGED <<mf, mi, mt, cost, qcost, exhausted>>

\* a slow call (a slow authorizer: every authorize / query evaluation costs qcost ticks)
SlowRet == qcost > 0 /\ Rec[l].name \in {"authorize", "query", "query_all"}
OkAllowed == ~exhausted /\ facts <= mf /\ iters <= mi /\ Rec[l].iterations = iters /\ Rec[l].facts = facts
             /\ (SlowRet => elapsed < mt)

\* save + restore: nothing is evaluated and the restored authorizer carries the same budget state
IsSnap == l <= Len(Rec) /\ Rec[l].ev = "return" /\ Rec[l].name = "snapshot"
SnapAllowed == Rec[l].outcome = "ok" /\ Rec[l].iterations = iters /\ Rec[l].facts = facts

TReturnSnapshot ==
    /\ IsEvent("return") /\ IsSnap
    /\ dev' = IF SnapAllowed THEN dev ELSE Append(dev, l)
    /\ UNCHANGED <<mf, mi, mt, cost, qcost, elapsed, facts, iters, exhausted>>

TReturnOk ==
    /\ IsEvent("return") /\ Rec[l].outcome = "ok" /\ ~IsSnap
    /\ dev' = IF OkAllowed THEN dev ELSE Append(dev, l)
    /\ elapsed' = elapsed + (IF SlowRet THEN qcost ELSE 0)
    /\ UNCHANGED <<mf, mi, mt, cost, qcost, facts, iters, exhausted>>

\* a run-limit return must also report the passes actually performed (cumulative accounting)
LimitAllowed == (exhausted \/ facts >= mf \/ iters >= mi \/ elapsed >= mt \/ SlowRet) /\ Rec[l].iterations = iters

TReturnLimit ==
    /\ IsEvent("return") /\ Rec[l].outcome = "limit" /\ ~IsSnap
    /\ exhausted' = TRUE
    /\ dev' = IF LimitAllowed THEN dev ELSE Append(dev, l)
    /\ UNCHANGED <<mf, mi, mt, cost, qcost, elapsed, facts, iters>>

\* any other outcome (panic, unexpected error) is a deviation
TReturnOther ==
    /\ IsEvent("return") /\ Rec[l].outcome \notin {"ok", "limit"} /\ ~IsSnap
    /\ dev' = Append(dev, l)
    /\ UNCHANGED <<mf, mi, mt, cost, qcost, elapsed, facts, iters, exhausted>>

TraceNext == TScenario \/ TCall \/ TIterIdle \/ TIterGrow \/ TReturnOk \/ TReturnLimit \/ TReturnOther \/ TReturnSnapshot
TraceSpec == TraceInit /\ [][TraceNext]_tvars

\* the whole trace must be consumed; deviations are reported at the end
AtEnd == l = Len(Rec) + 1
ReportDeviations == AtEnd => PrintT(<<"DEVIATIONS", ToJson(dev)>>)

TraceAccepted ==
    LET d == TLCGet("stats").diameter IN
    IF d - 1 = Len(Rec) THEN TRUE
    ELSE /\ PrintT(<<"TRACE-REJECTED", d, ToJson(Rec[d])>>)
         /\ FALSE
=============================================================================
