------------------------------- MODULE Params -------------------------------
(***************************************************************************)
(* C20: parameter binding.  An item (fact, rule, check, policy) is an AST  *)
(* with ONE hole {p} at a given position; binding puts a value exactly at  *)
(* the hole, whatever the value contains, and never changes the shape of   *)
(* the item.  The state machine:                                           *)
(*     Parse --Set(strict|lenient, name)--> Bound|Unbound --Add--> outcome *)
(* Outcomes:  "same-as-literal"  the item equals the item written with the *)
(*                               value as a literal at the hole            *)
(*            "refused"          Add refuses an item with an unbound hole  *)
(*            "set-error"        strict setter, unknown name               *)
(*            "value-error"      the value cannot stand at that position   *)
(*                               (a map key must be an integer or string)  *)
(* No state is "stuck": every (position, value, binding) has an outcome,   *)
(* i.e. no conversion of an item panics.                                   *)
(***************************************************************************)
EXTENDS Naturals, TLC, Json

CONSTANTS ExportOn

TermPositions == {"fact_term", "fact_in_array", "fact_in_set", "fact_map_value", "fact_map_key",
                  "rule_head_term", "rule_body_term", "rule_body_in_array", "rule_expr_value", "rule_expr_in_array",
                  "rule_closure_body", "rule_closure_in_array",
                  "check_body_term", "check_body_in_array", "check_expr_value", "check_expr_in_array",
                  "policy_body_term", "policy_expr_value", "policy_expr_in_set",
                  \* the same parameter in several alternatives / several places of one item
                  "check_two_alternatives", "policy_two_alternatives", "rule_head_and_body", "fact_twice"}
ScopePositions == {"rule_scope", "check_scope", "policy_scope", "check_scope_two_alternatives", "policy_scope_two_alternatives"}
Positions == TermPositions \cup ScopePositions

TermValues == {"int", "string", "string_with_datalog", "string_with_quote_newline", "bool", "date", "bytes", "set", "array", "map", "null"}
ScopeValues == {"key_ed25519", "key_secp256r1"}

\* where the item lives
Holder(pos) == IF pos \in {"policy_body_term", "policy_expr_value", "policy_expr_in_set", "policy_scope",
                             "policy_two_alternatives", "policy_scope_two_alternatives"} THEN "authorizer" ELSE "block"

\* values that may stand at a position
Fits(pos, v) ==
    CASE pos \in ScopePositions -> v \in ScopeValues
      [] pos = "fact_map_key"   -> v \in {"int", "string", "string_with_datalog", "string_with_quote_newline"}
      [] OTHER -> v \in TermValues

VARIABLES c
vars == <<c>>

Case(pos, v, bound, strict, known) == [pos |-> pos, v |-> v, bound |-> bound, strict |-> strict, known |-> known]

Init ==
    c \in {Case(pos, v, b, s, k) : pos \in Positions, v \in TermValues \cup ScopeValues, b \in BOOLEAN, s \in BOOLEAN, k \in BOOLEAN}
Next == UNCHANGED vars
Spec == Init /\ [][Next]_vars

\* values of the wrong sort for the position are not part of the universe (the API is typed)
\* (what a SET may contain besides scalars is not fixed by the property: collections inside sets are left out)
InUniverse ==
    /\ (c.pos \in ScopePositions) = (c.v \in ScopeValues)
    /\ (c.pos \in {"fact_in_set", "policy_expr_in_set"}) => c.v \notin {"set", "array", "map", "null"}

\* the setter is called with the hole's name (known) or with another name (not known);
\* the hole ends up bound only if the right name was used and `bound` asks for a call
SetterOutcome == IF c.known THEN "ok" ELSE IF c.strict THEN "error" ELSE "ok"
HoleBound == c.bound /\ c.known

Outcome ==
    IF c.bound /\ ~c.known /\ c.strict THEN "set-error"
    ELSE IF ~HoleBound THEN "refused"
    ELSE IF ~Fits(c.pos, c.v) THEN "value-error"
    ELSE "same-as-literal"

\* totality: the outcome is always one of the four
Total == Outcome \in {"same-as-literal", "refused", "set-error", "value-error"}
\* an unbound hole never gets through
UnboundNeverAdded == (~HoleBound) => Outcome \in {"refused", "set-error"}

Export ==
    (ExportOn /\ InUniverse) =>
        PrintT(<<"PARAM", ToJson([c |-> c, holder |-> Holder(c.pos), outcome |-> Outcome])>>)
=============================================================================
