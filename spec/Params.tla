------------------------------- MODULE Params -------------------------------
(***************************************************************************)
(* C20: parameter binding.  An item (fact, rule, check, policy) is an AST  *)
(* with a hole {p} at a given position (and, for the pair positions, a     *)
(* second independent hole {q}); binding puts a value exactly at the hole, *)
(* whatever the value contains, and never changes the shape of the item.   *)
(* The state machine:                                                      *)
(*     Parse --Set(strict|lenient, name)--> Bound|Unbound --Add--> outcome *)
(* Outcomes:  "same-as-literal"  the item equals the item written with the *)
(*                               value as a literal at the hole            *)
(*            "refused"          Add refuses an item with an unbound hole  *)
(*            "set-error"        strict setter, unknown name               *)
(*            "value-error"      the value cannot stand at that position   *)
(*                               (a map key must be an integer or string)  *)
(* No state is "stuck": every (position, value, binding) has an outcome,   *)
(* i.e. no conversion of an item panics.                                   *)
(***************************************************************************)
EXTENDS Naturals, TLC, Json

CONSTANTS ExportOn

TermPositions == {"fact_term", "fact_in_array", "fact_in_set", "fact_map_value", "fact_map_key",
                  "rule_head_term", "rule_body_term", "rule_body_in_array", "rule_expr_value", "rule_expr_in_array",
                  "rule_closure_body", "rule_closure_in_array",
                  "check_body_term", "check_body_in_array", "check_expr_value", "check_expr_in_array",
                  "policy_body_term", "policy_expr_value", "policy_expr_in_set",
                  \* the same parameter in several alternatives / several places of one item
                  "check_two_alternatives", "policy_two_alternatives", "rule_head_and_body", "fact_twice"}
ScopePositions == {"rule_scope", "check_scope", "policy_scope", "check_scope_two_alternatives", "policy_scope_two_alternatives"}
Positions == TermPositions \cup ScopePositions

\* items with TWO holes {p} and {q} (the second value is c.v2): the holes are bound independently,
\* wherever they stand relative to each other (map key and its value, head and expression, term and scope,
\* nested closures)
PairTermPositions == {"fact_map_key_value", "fact_map_key_nested_value", "fact_map_two_entries", "fact_two_terms",
                      "rule_map_key_value", "rule_head_and_expr", "check_map_key_value", "check_expr_map_key_value",
                      "policy_map_key_value", "policy_expr_map_key_value", "check_nested_closures"}
PairScopePositions == {"check_term_and_scope", "policy_term_and_scope", "rule_term_and_scope",
                       \* the SAME name used for a term parameter and for a scope parameter of one item: two holes all the same
                       "check_same_name_term_and_scope", "policy_same_name_term_and_scope", "rule_same_name_term_and_scope"}
SameName(pos) == pos \in {"check_same_name_term_and_scope", "policy_same_name_term_and_scope", "rule_same_name_term_and_scope"}
PairPositions == PairTermPositions \cup PairScopePositions
KeyFirst(pos) == pos \in {"fact_map_key_value", "fact_map_key_nested_value", "fact_map_two_entries", "rule_map_key_value",
                          "check_map_key_value", "check_expr_map_key_value", "policy_map_key_value", "policy_expr_map_key_value"}

\* the source of each item: the single definition used by the spec's exports, the run-time replay and the macro path
Template(pos) ==
    CASE pos = "fact_term" -> "f({p})"
      [] pos = "fact_in_array" -> "f([1, {p}])"
      [] pos = "fact_in_set" -> "f({ {p} })"
      [] pos = "fact_map_value" -> "f({\"k\": {p}})"
      [] pos = "fact_map_key" -> "f({ {p}: 1 })"
      [] pos = "rule_head_term" -> "r({p}) <- f($x)"
      [] pos = "rule_body_term" -> "r($x) <- f($x), g({p})"
      [] pos = "rule_body_in_array" -> "r($x) <- f($x), g([{p}])"
      [] pos = "rule_expr_value" -> "r($x) <- f($x), $x == {p}"
      [] pos = "rule_expr_in_array" -> "r($x) <- f($x), [{p}].contains($x)"
      [] pos = "rule_closure_body" -> "r($x) <- f($x), [1].any($e -> $e == {p})"
      [] pos = "rule_closure_in_array" -> "r($x) <- f($x), [1].any($e -> [{p}].contains($e))"
      [] pos = "rule_scope" -> "r($x) <- f($x) trusting {p}"
      [] pos = "check_body_term" -> "check if g({p})"
      [] pos = "check_body_in_array" -> "check if g([{p}])"
      [] pos = "check_expr_value" -> "check if f($x), $x == {p}"
      [] pos = "check_expr_in_array" -> "check if f($x), [{p}].contains($x)"
      [] pos = "check_scope" -> "check if f($x) trusting {p}"
      [] pos = "policy_body_term" -> "allow if g({p})"
      [] pos = "policy_expr_value" -> "allow if f($x), $x == {p}"
      [] pos = "policy_expr_in_set" -> "allow if f($x), { {p} }.contains($x)"
      [] pos = "policy_scope" -> "allow if f($x) trusting {p}"
      [] pos = "check_two_alternatives" -> "check if g({p}) or h($x), $x == {p}"
      [] pos = "policy_two_alternatives" -> "allow if g({p}) or h($x), $x == {p}"
      [] pos = "rule_head_and_body" -> "r({p}) <- f($x), g({p}), $x != {p}"
      [] pos = "fact_twice" -> "f({p}, [{p}])"
      [] pos = "check_scope_two_alternatives" -> "check if f($x) trusting {p} or g($x) trusting {p}"
      [] pos = "policy_scope_two_alternatives" -> "allow if f($x) trusting {p} or g($x) trusting {p}"
      \* two holes
      [] pos = "fact_map_key_value" -> "f({ {p}: {q} })"
      [] pos = "fact_map_key_nested_value" -> "f({ {p}: [{q}] })"
      [] pos = "fact_map_two_entries" -> "f({ {p}: 1, \"z\": {q} })"
      [] pos = "fact_two_terms" -> "f({p}, {q})"
      [] pos = "rule_map_key_value" -> "r($x) <- f($x), g({ {p}: {q} })"
      [] pos = "rule_head_and_expr" -> "r({p}) <- f($x), $x == {q}"
      [] pos = "check_map_key_value" -> "check if g({ {p}: {q} })"
      [] pos = "check_expr_map_key_value" -> "check if f($x), $x == { {p}: {q} }"
      [] pos = "policy_map_key_value" -> "allow if g({ {p}: {q} })"
      [] pos = "policy_expr_map_key_value" -> "allow if f($x), $x == { {p}: [{q}] }"
      [] pos = "check_nested_closures" -> "check if [1].any($e -> [2].any($g -> $e == {p} && $g == {q}))"
      [] pos = "check_term_and_scope" -> "check if g({p}) trusting {q}"
      [] pos = "policy_term_and_scope" -> "allow if g({p}) trusting {q}"
      [] pos = "rule_term_and_scope" -> "r({p}) <- f($x) trusting {q}"
      [] pos = "check_same_name_term_and_scope" -> "check if g({p}) trusting {p}"
      [] pos = "policy_same_name_term_and_scope" -> "allow if g({p}) trusting {p}"
      [] pos = "rule_same_name_term_and_scope" -> "r({p}) <- f($x) trusting {p}"

TermValues == {"int", "string", "string_with_datalog", "string_with_quote_newline", "bool", "date", "bytes", "set", "array", "map", "null"}
ScopeValues == {"key_ed25519", "key_secp256r1"}

\* where the item lives
Holder(pos) == IF pos \in {"policy_body_term", "policy_expr_value", "policy_expr_in_set", "policy_scope",
                             "policy_two_alternatives", "policy_scope_two_alternatives",
                             "policy_map_key_value", "policy_expr_map_key_value", "policy_term_and_scope",
                             "policy_same_name_term_and_scope"} THEN "authorizer" ELSE "block"

\* values that may stand at a position
Fits(pos, v) ==
    CASE pos \in ScopePositions -> v \in ScopeValues
      [] pos = "fact_map_key" \/ (pos \in PairPositions /\ KeyFirst(pos))
                                -> v \in {"int", "string", "string_with_datalog", "string_with_quote_newline"}
      [] OTHER -> v \in TermValues

VARIABLES c
vars == <<c>>

\* v2 = "-" : the item has one hole only
Case(pos, v, bound, strict, known) == [pos |-> pos, v |-> v, bound |-> bound, strict |-> strict, known |-> known, v2 |-> "-", bound2 |-> TRUE]
Pair(pos, v, v2, b, b2, s) == [pos |-> pos, v |-> v, bound |-> b, strict |-> s, known |-> TRUE, v2 |-> v2, bound2 |-> b2]

PairFirstValues == {"int", "string", "string_with_datalog", "array"}
PairSecondValues == {"int", "string_with_datalog", "array", "map", "null"}

Init ==
    \/ c \in {Case(pos, v, b, s, k) : pos \in Positions, v \in TermValues \cup ScopeValues, b \in BOOLEAN, s \in BOOLEAN, k \in BOOLEAN}
    \/ c \in {Pair(pos, v, v2, b, b2, s) : pos \in PairPositions, v \in PairFirstValues, v2 \in PairSecondValues \cup ScopeValues,
                                            b \in BOOLEAN, b2 \in BOOLEAN, s \in BOOLEAN}
Next == UNCHANGED vars
Spec == Init /\ [][Next]_vars

\* values of the wrong sort for the position are not part of the universe (the API is typed)
\* (what a SET may contain besides scalars is not fixed by the property: collections inside sets are left out)
InUniverse ==
    /\ (c.pos \in ScopePositions) = (c.v \in ScopeValues)
    /\ (c.pos \in PairScopePositions) = (c.v2 \in ScopeValues)
    /\ (c.pos \in {"fact_in_set", "policy_expr_in_set"}) => c.v \notin {"set", "array", "map", "null"}

\* the setter is called with the hole's name (known) or with another name (not known);
\* the hole ends up bound only if the right name was used and `bound` asks for a call
SetterOutcome == IF c.known THEN "ok" ELSE IF c.strict THEN "error" ELSE "ok"
HoleBound == c.bound /\ c.known /\ c.bound2

Outcome ==
    IF c.bound /\ ~c.known /\ c.strict THEN "set-error"
    ELSE IF ~HoleBound THEN "refused"
    ELSE IF ~Fits(c.pos, c.v) THEN "value-error"
    ELSE "same-as-literal"

\* totality: the outcome is always one of the four
Total == Outcome \in {"same-as-literal", "refused", "set-error", "value-error"}
\* an unbound hole never gets through
UnboundNeverAdded == (~HoleBound) => Outcome \in {"refused", "set-error"}

Export ==
    (ExportOn /\ InUniverse) =>
        PrintT(<<"PARAM", ToJson([c |-> c, holder |-> Holder(c.pos), src |-> Template(c.pos), name2 |-> IF c.pos \in PairPositions /\ SameName(c.pos) THEN "p" ELSE "q",
                                          outcome |-> Outcome])>>)
=============================================================================
