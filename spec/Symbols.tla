------------------------------ MODULE Symbols ------------------------------
(***************************************************************************)
(* String and public-key interning across every API path (C12, C07 table   *)
(* isolation).  A token carries cumulative tables (syms, keys) built from  *)
(* the declarations of its FIRST-PARTY blocks, in order; a third-party     *)
(* block is built against the default table only, declares its own tables  *)
(* and neither reads nor extends the token's.  Deserialization rebuilds    *)
(* the tables from the first-party declarations and refuses overlaps.      *)
(*                                                                         *)
(* content  = [strs |-> sequence of strings, ckey, bkey |-> key or "none"] *)
(*            what the block's author wrote (facts over the strings, a     *)
(*            check `trusting ckey`, a block scope `trusting bkey`)        *)
(* block    = [tp, dsyms, dkeys, sidx, kidx, authored]                     *)
(*            declared tables and the stored references (indices)          *)
(* token    = [syms, keys, blocks, sealed]                                 *)
(***************************************************************************)
EXTENDS Naturals, Sequences, FiniteSets, TLC

CONSTANTS Defaults     \* set of default symbols (only those used by the universes)

NoK == "none"

RECURSIVE Dedup(_)
Dedup(s) == IF s = <<>> THEN <<>>
            ELSE LET r == Dedup(SubSeq(s, 1, Len(s) - 1))  x == s[Len(s)] IN
                 IF \E i \in 1..Len(r) : r[i] = x THEN r ELSE Append(r, x)
Filter(s, P(_)) == LET F[i \in 0..Len(s)] == IF i = 0 THEN <<>> ELSE IF P(s[i]) THEN Append(F[i-1], s[i]) ELSE F[i-1] IN F[Len(s)]
InSeq(x, s) == \E i \in 1..Len(s) : s[i] = x
IndexOf(x, s) == CHOOSE i \in 1..Len(s) : s[i] = x

KeysOf(c) == Dedup(Filter(<<c.ckey, c.bkey>>, LAMBDA k : k # NoK))
StrsOf(c) == Dedup(c.strs)

\* reference to a string: 0 for a default symbol (resolved by name), else 1-based index in the table
SymRef(s, table) == IF s \in Defaults THEN 0 ELSE IndexOf(s, table)

MkBlock(c, baseSyms, baseKeys, tp) ==
    LET ns == Filter(StrsOf(c), LAMBDA s : s \notin Defaults /\ ~InSeq(s, baseSyms))
        nk == Filter(KeysOf(c), LAMBDA k : ~InSeq(k, baseKeys))
        st == baseSyms \o ns
        kt == baseKeys \o nk
    IN [tp |-> tp, dsyms |-> ns, dkeys |-> nk,
        sidx |-> [i \in 1..Len(c.strs) |-> SymRef(c.strs[i], st)],
        kidx |-> [i \in 1..Len(KeysOf(c)) |-> IndexOf(KeysOf(c)[i], kt)],
        authored |-> c]

Token(syms, keys, blocks, sealed) == [syms |-> syms, keys |-> keys, blocks |-> blocks, sealed |-> sealed]

BuildTok(c) == LET b == MkBlock(c, <<>>, <<>>, FALSE) IN Token(b.dsyms, b.dkeys, <<b>>, FALSE)

\* first-party append: built against a copy of the token tables, which it then extends
AppendTok(t, c) ==
    LET b == MkBlock(c, t.syms, t.keys, FALSE) IN
    Token(t.syms \o b.dsyms, t.keys \o b.dkeys, Append(t.blocks, b), FALSE)

\* third-party append: private tables; the token's tables are untouched (on EVERY API path)
AppendTPTok(t, c) ==
    LET b == MkBlock(c, <<>>, <<>>, TRUE) IN
    Token(t.syms, t.keys, Append(t.blocks, b), FALSE)

SealTok(t) == [t EXCEPT !.sealed = TRUE]

\* tables as rebuilt by deserialization
RECURSIVE ConcatDecl(_, _)
ConcatDecl(blocks, f) ==
    IF blocks = <<>> THEN <<>>
    ELSE (IF Head(blocks).tp THEN <<>> ELSE IF f = "s" THEN Head(blocks).dsyms ELSE Head(blocks).dkeys)
         \o ConcatDecl(Tail(blocks), f)
ReloadSyms(t) == ConcatDecl(t.blocks, "s")
ReloadKeys(t) == ConcatDecl(t.blocks, "k")

NoDup(s) == \A i, j \in 1..Len(s) : i # j => s[i] # s[j]
\* a wire token is accepted only if no first-party block redeclares an earlier or default symbol / key
WellFormed(t) == NoDup(ReloadSyms(t)) /\ NoDup(ReloadKeys(t)) /\ \A i \in 1..Len(ReloadSyms(t)) : ReloadSyms(t)[i] \notin Defaults

\* what the references of block j resolve to, given token tables (syms, keys)
ResolveStr(b, i, syms) ==
    IF b.sidx[i] = 0 THEN b.authored.strs[i]        \* default symbols are referenced by their fixed id
    ELSE IF b.tp THEN b.dsyms[b.sidx[i]]
    ELSE IF b.sidx[i] <= Len(syms) THEN syms[b.sidx[i]] ELSE "<unknown>"
ResolveKey(b, i, keys) ==
    IF b.tp THEN b.dkeys[b.kidx[i]]
    ELSE IF b.kidx[i] <= Len(keys) THEN keys[b.kidx[i]] ELSE "<unknown>"

ResolvesTo(t, syms, keys) ==
    \A j \in 1..Len(t.blocks) :
        LET b == t.blocks[j] IN
        /\ \A i \in 1..Len(b.authored.strs) : ResolveStr(b, i, syms) = b.authored.strs[i]
        /\ \A i \in 1..Len(KeysOf(b.authored)) : ResolveKey(b, i, keys) = KeysOf(b.authored)[i]
=============================================================================
