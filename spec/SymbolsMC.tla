----------------------------- MODULE SymbolsMC -----------------------------
(***************************************************************************)
(* Design check for C12: every sequence of <= MaxOps operations over       *)
(* contents chosen to share, shadow and collide on symbols, default        *)
(* symbols and keys (incl. third-party blocks declaring keys the token     *)
(* declares later, and vice versa).                                        *)
(***************************************************************************)
EXTENDS Symbols

CONSTANTS Contents, MaxOps

VARIABLES tok, n
vars == <<tok, n>>

Init == \E c \in Contents : tok = BuildTok(c) /\ n = 1
Next ==
    /\ n < MaxOps /\ ~tok.sealed
    /\ n' = n + 1
    /\ \/ \E c \in Contents : tok' = AppendTok(tok, c)
       \/ \E c \in Contents : tok' = AppendTPTok(tok, c)
       \/ tok' = SealTok(tok)
Spec == Init /\ [][Next]_vars

\* the in-memory tables are what a reload rebuilds, and every reference resolves to what was authored
MemEqualsReload == tok.syms = ReloadSyms(tok) /\ tok.keys = ReloadKeys(tok)
ResolveInMemory == ResolvesTo(tok, tok.syms, tok.keys)
ResolveReloaded == ResolvesTo(tok, ReloadSyms(tok), ReloadKeys(tok))
AlwaysWellFormed == WellFormed(tok)

C(strs, ck, bk) == [strs |-> strs, ckey |-> ck, bkey |-> bk]
ContentMenu == {C(<<"s1">>, NoK, NoK), C(<<"read", "s1">>, "KA", NoK), C(<<"s2", "s1">>, NoK, "KB"),
                C(<<"s2">>, "KB", "KA"), C(<<"read">>, "KA", "KA"), C(<<"s3", "s2", "s1">>, "KB", NoK)}
DefaultsUsed == {"read", "resource", "operation", "right"}
=============================================================================
