---------------------------- MODULE SymbolsTrace ----------------------------
(***************************************************************************)
(* Trace validation for C12 / C07 (table isolation): runs of the real      *)
(* token API (verified and unverified paths mixed), with the interning     *)
(* tables of the in-memory token (hook verif_tables) and of the reloaded   *)
(* token logged after every operation, must follow Symbols.tla.            *)
(* An event that is not a step of the spec is recorded as a deviation and  *)
(* the rest of that run is skipped (its state is no longer known), so the  *)
(* whole trace file is examined.                                           *)
(***************************************************************************)
EXTENDS Symbols, Json, IOUtils

Rec == ndJsonDeserialize(IOEnv.TRACE)

VARIABLES toks, l, broken, dev
tvars == <<toks, l, broken, dev>>

TraceInit == toks = <<>> /\ l = 1 /\ broken = FALSE /\ dev = <<>>

IsEvent(e) == l <= Len(Rec) /\ Rec[l].ev = e /\ l' = l + 1

TReset == IsEvent("reset") /\ toks' = <<>> /\ broken' = FALSE /\ UNCHANGED dev

\* projection of a spec token, as logged by the recorder
Proj(t) == [syms |-> t.syms, keys |-> t.keys,
            blocks |-> [i \in 1..Len(t.blocks) |-> [tp |-> t.blocks[i].tp, dsyms |-> t.blocks[i].dsyms, dkeys |-> t.blocks[i].dkeys]]]

Conforms(t) ==
    /\ Rec[l].st = Proj(t)                          \* in-memory tables and per-block declarations
    /\ Rec[l].rl_ok                                 \* the serialized token reloads
    /\ Rec[l].rl = [syms |-> ReloadSyms(t), keys |-> ReloadKeys(t)]
    /\ ResolvesTo(t, Rec[l].st.syms, Rec[l].st.keys)
    /\ Rec[l].direct_ok                             \* same sources / authorization in memory and reloaded

Step(t) ==
    IF Conforms(t) THEN /\ toks' = Append(toks, t) /\ UNCHANGED <<broken, dev>>
    ELSE /\ broken' = TRUE /\ dev' = Append(dev, l) /\ UNCHANGED toks

Op(name) == IsEvent(name) /\ ~broken

TBuild    == Op("build") /\ Step(BuildTok(Rec[l].content))
TAppend   == Op("append") /\ Rec[l].from \in 1..Len(toks) /\ Step(AppendTok(toks[Rec[l].from], Rec[l].content))
TAppendTP == Op("append3p") /\ Rec[l].from \in 1..Len(toks) /\ Step(AppendTPTok(toks[Rec[l].from], Rec[l].content))
TSeal     == Op("seal") /\ Rec[l].from \in 1..Len(toks) /\ Step(SealTok(toks[Rec[l].from]))

\* a wire token in which a first-party block redeclares a symbol / key: must have been refused
TRedeclare ==
    /\ IsEvent("redeclared") /\ Rec[l].refused
    /\ UNCHANGED <<toks, broken, dev>>
TRedeclareAccepted ==
    /\ IsEvent("redeclared") /\ ~Rec[l].refused
    /\ dev' = Append(dev, l) /\ UNCHANGED <<toks, broken>>

TSkip == l <= Len(Rec) /\ broken /\ Rec[l].ev # "reset" /\ l' = l + 1 /\ UNCHANGED <<toks, broken, dev>>

TraceNext == TReset \/ TBuild \/ TAppend \/ TAppendTP \/ TSeal \/ TRedeclare \/ TRedeclareAccepted \/ TSkip
TraceSpec == TraceInit /\ [][TraceNext]_tvars

AtEnd == l = Len(Rec) + 1
ReportDeviations == AtEnd => PrintT(<<"DEVIATIONS", ToJson(dev)>>)

TraceAccepted ==
    LET d == TLCGet("stats").diameter IN
    IF d - 1 = Len(Rec) THEN TRUE
    ELSE /\ PrintT(<<"TRACE-REJECTED", d, ToJson(Rec[d])>>)
         /\ FALSE

DefaultsAll == {"read", "write", "resource", "operation", "right", "time", "role", "owner", "tenant", "namespace",
                "user", "team", "service", "admin", "email", "group", "member", "ip_address", "client", "client_ip",
                "domain", "path", "version", "cluster", "node", "hostname", "nonce", "query"}
=============================================================================
