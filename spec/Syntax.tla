------------------------------- MODULE Syntax -------------------------------
(***************************************************************************)
(* C14: printed Datalog parses back to the same program.                   *)
(*                                                                         *)
(* Part 1 - string literals.  A string value is a sequence over a hostile  *)
(* alphabet; PrintStr writes the literal, Lex reads ONE literal back by    *)
(* the grammar                                                             *)
(*     string  ::= '"' ( [^"\] | '\' '"' | '\' '\' | '\' 'n' )* '"'        *)
(* Invariant: Lex(PrintStr(s)) consumes the whole text and yields s.       *)
(*                                                                         *)
(* Part 2 - expressions.  ASTs are the derivations of the operator         *)
(* precedence grammar (lowest to highest):                                 *)
(*   || < && < comparisons (non associative) < ^ < | < & < + - < * / < !   *)
(*   < methods < atoms and parentheses,                                    *)
(* where the operand of the prefix `!` extends over a whole additive       *)
(* expression.  Grouping is explicit (Parens nodes); the printer writes    *)
(* infix / method / prefix forms without adding parentheses.  Unique       *)
(* readability (two derivations never print the same text) is checked by   *)
(* TLC through a VIEW on the printed text.                                 *)
(***************************************************************************)
EXTENDS Naturals, Sequences, FiniteSets, TLC, Json

CONSTANTS Part, MaxLen, ExportOn, SampleN

(***************************************************************************)
(* Part 1                                                                  *)
(***************************************************************************)
Alphabet == {"a", "QUOTE", "BACKSLASH", "n", "NEWLINE", " ", ";", "(", ")", ",", "TAB", "NUL", "COMBINING"}

RECURSIVE Escape(_)
Escape(s) ==
    IF s = <<>> THEN <<>>
    ELSE LET c == Head(s) IN
         (CASE c = "QUOTE"     -> <<"BACKSLASH", "QUOTE">>
            [] c = "BACKSLASH" -> <<"BACKSLASH", "BACKSLASH">>
            [] c = "NEWLINE"   -> <<"BACKSLASH", "n">>
            [] OTHER -> <<c>>) \o Escape(Tail(s))

PrintStr(s) == <<"QUOTE">> \o Escape(s) \o <<"QUOTE">>

\* reads the body of a literal (after the opening quote): [ok, val, rest]
RECURSIVE LexBody(_, _)
LexBody(t, acc) ==
    IF t = <<>> THEN [ok |-> FALSE, val |-> acc, rest |-> <<>>]                    \* unterminated
    ELSE LET c == Head(t) IN
         IF c = "QUOTE" THEN [ok |-> TRUE, val |-> acc, rest |-> Tail(t)]
         ELSE IF c = "BACKSLASH" THEN
              IF Len(t) < 2 THEN [ok |-> FALSE, val |-> acc, rest |-> <<>>]
              ELSE LET d == t[2] IN
                   IF d = "QUOTE" THEN LexBody(SubSeq(t, 3, Len(t)), Append(acc, "QUOTE"))
                   ELSE IF d = "BACKSLASH" THEN LexBody(SubSeq(t, 3, Len(t)), Append(acc, "BACKSLASH"))
                   ELSE IF d = "n" THEN LexBody(SubSeq(t, 3, Len(t)), Append(acc, "NEWLINE"))
                   ELSE [ok |-> FALSE, val |-> acc, rest |-> t]                      \* unknown escape
         ELSE LexBody(Tail(t), Append(acc, c))

Lex(t) == IF t # <<>> /\ Head(t) = "QUOTE" THEN LexBody(Tail(t), <<>>) ELSE [ok |-> FALSE, val |-> <<>>, rest |-> t]

(***************************************************************************)
(* Part 2                                                                  *)
(***************************************************************************)
Atoms == {"1", "$x", "true"}

Infix == [LazyOr |-> 0, LazyAnd |-> 1,
          LessThan |-> 2, GreaterThan |-> 2, LessOrEqual |-> 2, GreaterOrEqual |-> 2,
          Equal |-> 2, NotEqual |-> 2, HeterogeneousEqual |-> 2, HeterogeneousNotEqual |-> 2,
          BitwiseXor |-> 3, BitwiseOr |-> 4, BitwiseAnd |-> 5, Add |-> 6, Sub |-> 6, Mul |-> 7, Div |-> 7]
InfixOps == DOMAIN Infix
Methods2 == {"Contains", "Prefix", "Suffix", "Regex", "Intersection", "Union", "Get"}
Methods1 == {"Length", "TypeOf"}
Quantifiers == {"All", "Any"}

Sym == [LazyOr |-> "||", LazyAnd |-> "&&", LessThan |-> "<", GreaterThan |-> ">", LessOrEqual |-> "<=", GreaterOrEqual |-> ">=",
        Equal |-> "===", NotEqual |-> "!==", HeterogeneousEqual |-> "==", HeterogeneousNotEqual |-> "!=",
        BitwiseXor |-> "^", BitwiseOr |-> "|", BitwiseAnd |-> "&", Add |-> "+", Sub |-> "-", Mul |-> "*", Div |-> "/",
        Contains |-> "contains", Prefix |-> "starts_with", Suffix |-> "ends_with", Regex |-> "matches",
        Intersection |-> "intersection", Union |-> "union", Get |-> "get", Length |-> "length", TypeOf |-> "type",
        All |-> "all", Any |-> "any"]

Atom(a)        == [k |-> "atom", op |-> a, a |-> <<>>]
Un(op, e)      == [k |-> "un", op |-> op, a |-> <<e>>]          \* Negate, Parens, Length, TypeOf
Bin(op, l, r)  == [k |-> "bin", op |-> op, a |-> <<l, r>>]      \* infix operators and binary methods
Quant(op, l, b) == [k |-> "quant", op |-> op, a |-> <<l, b>>]   \* l.all($p -> b)

Lev(e) ==
    CASE e.k = "atom" -> 10
      [] e.k = "un" -> IF e.op = "Negate" THEN 8 ELSE IF e.op = "Parens" THEN 10 ELSE 9
      [] e.k = "bin" -> IF e.op \in InfixOps THEN Infix[e.op] ELSE 9
      [] e.k = "quant" -> 9

\* does the text of e end inside the operand of an unparenthesised `!` ?
RECURSIVE EndsWithNegate(_)
EndsWithNegate(e) ==
    \/ (e.k = "un" /\ e.op = "Negate")
    \/ (e.k = "bin" /\ e.op \in InfixOps /\ EndsWithNegate(e.a[2]))

\* is e (whose children are well formed) a derivation of the grammar ?
NodeOK(e) ==
    CASE e.k = "atom" -> TRUE
      [] e.k = "un" ->
            CASE e.op = "Parens" -> TRUE
              [] e.op = "Negate" -> Lev(e.a[1]) >= 6
              [] OTHER -> Lev(e.a[1]) >= 9                           \* receiver of a method
      [] e.k = "bin" ->
            IF e.op \in InfixOps THEN
                LET L == Infix[e.op] IN
                /\ IF L = 2 THEN Lev(e.a[1]) > 2 ELSE Lev(e.a[1]) >= L
                /\ Lev(e.a[2]) > L
                /\ (L >= 6) => ~EndsWithNegate(e.a[1])                \* `!a + b` is `!(a + b)`
                /\ (L < 6) => TRUE
            ELSE Lev(e.a[1]) >= 9
      [] e.k = "quant" -> Lev(e.a[1]) >= 9

\* the printed text, as a sequence of tokens
RECURSIVE Show(_)
Show(e) ==
    CASE e.k = "atom" -> <<e.op>>
      [] e.k = "un" ->
            CASE e.op = "Parens" -> <<"(">> \o Show(e.a[1]) \o <<")">>
              [] e.op = "Negate" -> <<"!">> \o Show(e.a[1])
              [] OTHER -> Show(e.a[1]) \o <<".", Sym[e.op], "(", ")">>
      [] e.k = "bin" ->
            IF e.op \in InfixOps THEN Show(e.a[1]) \o <<Sym[e.op]>> \o Show(e.a[2])
            ELSE Show(e.a[1]) \o <<".", Sym[e.op], "(">> \o Show(e.a[2]) \o <<")">>
      [] e.k = "quant" -> Show(e.a[1]) \o <<".", Sym[e.op], "(", "$p", "->">> \o Show(e.a[2]) \o <<")">>

\* ---- universe: a root node over children that are atoms, one-operator subexpressions, or those in parentheses
A1 == Atom("1")
AX == Atom("$x")
Leaves == {Atom(a) : a \in Atoms}
Sub1 ==
    {Bin(op, A1, AX) : op \in InfixOps \cup Methods2}
    \cup {Un(op, AX) : op \in Methods1 \cup {"Negate"}}
    \cup {Quant(op, AX, Atom("true")) : op \in Quantifiers}
Children == Leaves \cup Sub1 \cup {Un("Parens", s) : s \in Sub1}

VARIABLES ast, str
vars == <<ast, str>>




Init ==
    IF Part = "strings"
    THEN /\ ast = A1
         /\ \E n \in 0..MaxLen : str \in [1..n -> Alphabet]
    ELSE /\ str = <<>>
         /\ ast \in Children

Next ==
    /\ Part = "exprs"
    /\ ast \in Children        \* only from the seed states
    /\ \E l \in Children :
         \/ \E op \in InfixOps \cup Methods2 : ast' = Bin(op, l, ast)
         \/ \E op \in InfixOps \cup Methods2 : ast' = Bin(op, ast, l)
         \/ \E op \in Quantifiers : ast' = Quant(op, l, ast)
         \/ \E op \in Methods1 \cup {"Negate", "Parens"} : ast' = Un(op, ast)
    /\ NodeOK(ast')
    /\ UNCHANGED str

Spec == Init /\ [][Next]_vars

\* Part 1: one literal, whole text, same contents
StringRoundTrip ==
    (Part = "strings") =>
        LET r == Lex(PrintStr(str)) IN r.ok /\ r.rest = <<>> /\ r.val = str

\* Part 2: VIEW used to check unique readability (run with and without, compare the state counts)
TextView == <<Show(ast), str>>

ExportStr ==
    (ExportOn /\ Part = "strings") => PrintT(<<"STR", ToJson([s |-> str, text |-> PrintStr(str)])>>)
ExportExpr ==
    (ExportOn /\ Part = "exprs" /\ (SampleN = 1 \/ RandomElement(1..SampleN) = 1)) =>
        PrintT(<<"EXPR", ToJson([ast |-> ast, text |-> Show(ast)])>>)
=============================================================================
