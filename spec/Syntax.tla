------------------------------- MODULE Syntax -------------------------------
(***************************************************************************)
(* C14: printed Datalog parses back to the same program.                   *)
(*                                                                         *)
(* Part 1 - string literals.  A string value is a sequence over a hostile  *)
(* alphabet; PrintStr writes the literal, Lex reads ONE literal back by    *)
(* the grammar                                                             *)
(*     string  ::= '"' ( [^"\] | '\' '"' | '\' '\' | '\' 'n' )* '"'        *)
(* Invariant: Lex(PrintStr(s)) consumes the whole text and yields s.       *)
(*                                                                         *)
(* Part 2 - expressions.  ASTs are the derivations of the operator         *)
(* precedence grammar (lowest to highest):                                 *)
(*   || < && < comparisons (non associative) < ^ < | < & < + - < * / < !   *)
(*   < methods < atoms and parentheses,                                    *)
(* where the operand of the prefix `!` extends over a whole additive       *)
(* expression.  Grouping is explicit (Parens nodes); the printer writes    *)
(* infix / method / prefix forms without adding parentheses.  Unique       *)
(* readability (two derivations never print the same text) is checked by   *)
(* TLC through a VIEW on the printed text.                                 *)
(***************************************************************************)
EXTENDS Naturals, Sequences, FiniteSets, TLC, Json

CONSTANTS Part, MaxLen, ExportOn, SampleN

(***************************************************************************)
(* Part 1                                                                  *)
(***************************************************************************)
Alphabet == {"a", "QUOTE", "BACKSLASH", "n", "NEWLINE", " ", ";", "(", ")", ",", "TAB", "NUL", "COMBINING"}

RECURSIVE Escape(_)
Escape(s) ==
    IF s = <<>> THEN <<>>
    ELSE LET c == Head(s) IN
         (CASE c = "QUOTE"     -> <<"BACKSLASH", "QUOTE">>
            [] c = "BACKSLASH" -> <<"BACKSLASH", "BACKSLASH">>
            [] c = "NEWLINE"   -> <<"BACKSLASH", "n">>
            [] OTHER -> <<c>>) \o Escape(Tail(s))

PrintStr(s) == <<"QUOTE">> \o Escape(s) \o <<"QUOTE">>

\* reads the body of a literal (after the opening quote): [ok, val, rest]
RECURSIVE LexBody(_, _)
LexBody(t, acc) ==
    IF t = <<>> THEN [ok |-> FALSE, val |-> acc, rest |-> <<>>]                    \* unterminated
    ELSE LET c == Head(t) IN
         IF c = "QUOTE" THEN [ok |-> TRUE, val |-> acc, rest |-> Tail(t)]
         ELSE IF c = "BACKSLASH" THEN
              IF Len(t) < 2 THEN [ok |-> FALSE, val |-> acc, rest |-> <<>>]
              ELSE LET d == t[2] IN
                   IF d = "QUOTE" THEN LexBody(SubSeq(t, 3, Len(t)), Append(acc, "QUOTE"))
                   ELSE IF d = "BACKSLASH" THEN LexBody(SubSeq(t, 3, Len(t)), Append(acc, "BACKSLASH"))
                   ELSE IF d = "n" THEN LexBody(SubSeq(t, 3, Len(t)), Append(acc, "NEWLINE"))
                   ELSE [ok |-> FALSE, val |-> acc, rest |-> t]                      \* unknown escape
         ELSE LexBody(Tail(t), Append(acc, c))

Lex(t) == IF t # <<>> /\ Head(t) = "QUOTE" THEN LexBody(Tail(t), <<>>) ELSE [ok |-> FALSE, val |-> <<>>, rest |-> t]

(***************************************************************************)
(* Part 2                                                                  *)
(***************************************************************************)
Atoms == {"1", "$x", "true"}

Infix == [LazyOr |-> 0, LazyAnd |-> 1,
          LessThan |-> 2, GreaterThan |-> 2, LessOrEqual |-> 2, GreaterOrEqual |-> 2,
          Equal |-> 2, NotEqual |-> 2, HeterogeneousEqual |-> 2, HeterogeneousNotEqual |-> 2,
          BitwiseXor |-> 3, BitwiseOr |-> 4, BitwiseAnd |-> 5, Add |-> 6, Sub |-> 6, Mul |-> 7, Div |-> 7]
InfixOps == DOMAIN Infix
Methods2 == {"Contains", "Prefix", "Suffix", "Regex", "Intersection", "Union", "Get"}
Methods1 == {"Length", "TypeOf"}
Quantifiers == {"All", "Any"}

Sym == [LazyOr |-> "||", LazyAnd |-> "&&", LessThan |-> "<", GreaterThan |-> ">", LessOrEqual |-> "<=", GreaterOrEqual |-> ">=",
        Equal |-> "===", NotEqual |-> "!==", HeterogeneousEqual |-> "==", HeterogeneousNotEqual |-> "!=",
        BitwiseXor |-> "^", BitwiseOr |-> "|", BitwiseAnd |-> "&", Add |-> "+", Sub |-> "-", Mul |-> "*", Div |-> "/",
        Contains |-> "contains", Prefix |-> "starts_with", Suffix |-> "ends_with", Regex |-> "matches",
        Intersection |-> "intersection", Union |-> "union", Get |-> "get", Length |-> "length", TypeOf |-> "type",
        All |-> "all", Any |-> "any"]

Atom(a)        == [k |-> "atom", op |-> a, a |-> <<>>]
Un(op, e)      == [k |-> "un", op |-> op, a |-> <<e>>]          \* Negate, Parens, Length, TypeOf
Bin(op, l, r)  == [k |-> "bin", op |-> op, a |-> <<l, r>>]      \* infix operators and binary methods
Quant(op, l, b) == [k |-> "quant", op |-> op, a |-> <<l, b>>]   \* l.all($p -> b)

Lev(e) ==
    CASE e.k = "atom" -> 10
      [] e.k = "un" -> IF e.op = "Negate" THEN 8 ELSE IF e.op = "Parens" THEN 10 ELSE 9
      [] e.k = "bin" -> IF e.op \in InfixOps THEN Infix[e.op] ELSE 9
      [] e.k = "quant" -> 9

\* does the text of e end inside the operand of an unparenthesised `!` ?
RECURSIVE EndsWithNegate(_)
EndsWithNegate(e) ==
    \/ (e.k = "un" /\ e.op = "Negate")
    \/ (e.k = "bin" /\ e.op \in InfixOps /\ EndsWithNegate(e.a[2]))

\* is e (whose children are well formed) a derivation of the grammar ?
NodeOK(e) ==
    CASE e.k = "atom" -> TRUE
      [] e.k = "un" ->
            CASE e.op = "Parens" -> TRUE
              [] e.op = "Negate" -> Lev(e.a[1]) >= 6
              [] OTHER -> Lev(e.a[1]) >= 9                           \* receiver of a method
      [] e.k = "bin" ->
            IF e.op \in InfixOps THEN
                LET L == Infix[e.op] IN
                /\ IF L = 2 THEN Lev(e.a[1]) > 2 ELSE Lev(e.a[1]) >= L
                /\ Lev(e.a[2]) > L
                /\ (L >= 6) => ~EndsWithNegate(e.a[1])                \* `!a + b` is `!(a + b)`
                /\ (L < 6) => TRUE
            ELSE Lev(e.a[1]) >= 9
      [] e.k = "quant" -> Lev(e.a[1]) >= 9

\* the printed text, as a sequence of tokens
RECURSIVE Show(_)
Show(e) ==
    CASE e.k = "atom" -> <<e.op>>
      [] e.k = "un" ->
            CASE e.op = "Parens" -> <<"(">> \o Show(e.a[1]) \o <<")">>
              [] e.op = "Negate" -> <<"!">> \o Show(e.a[1])
              [] OTHER -> Show(e.a[1]) \o <<".", Sym[e.op], "(", ")">>
      [] e.k = "bin" ->
            IF e.op \in InfixOps THEN Show(e.a[1]) \o <<Sym[e.op]>> \o Show(e.a[2])
            ELSE Show(e.a[1]) \o <<".", Sym[e.op], "(">> \o Show(e.a[2]) \o <<")">>
      [] e.k = "quant" -> Show(e.a[1]) \o <<".", Sym[e.op], "(", "$p", "->">> \o Show(e.a[2]) \o <<")">>

\* ---- universe: a root node over children that are atoms, one-operator subexpressions, or those in parentheses
A1 == Atom("1")
AX == Atom("$x")
Leaves == {Atom(a) : a \in Atoms}
Sub1 ==
    {Bin(op, A1, AX) : op \in InfixOps \cup Methods2}
    \cup {Un(op, AX) : op \in Methods1 \cup {"Negate"}}
    \cup {Quant(op, AX, Atom("true")) : op \in Quantifiers}
Children == Leaves \cup Sub1 \cup {Un("Parens", s) : s \in Sub1}

(***************************************************************************)
(* Part 3 - items.  Facts, rules, checks of the three kinds and policies   *)
(* over every type of term, with `trusting` annotations made of authority, *)
(* previous and public keys of both algorithms; the text each printer      *)
(* (builder Display, the token's block source, the authorizer's dump) must *)
(* write, which must parse back to the same item.  KED / KP256 stand for   *)
(* the textual form of an ed25519 / secp256r1 public key.                  *)
(***************************************************************************)
TermKinds == {"i1", "ineg", "str", "date", "bytes", "btrue", "null", "set", "arr", "map"}
TermText(t) ==
    CASE t = "i1" -> "1" [] t = "ineg" -> "-5" [] t = "str" -> "\"ab\"" [] t = "date" -> "2020-01-01T00:00:00Z"
      [] t = "bytes" -> "hex:0102" [] t = "btrue" -> "true" [] t = "null" -> "null" [] t = "set" -> "{1, 2}"
      [] t = "arr" -> "[1, \"a\"]" [] t = "map" -> "{\"k\": 1}"
ItemScopes == {<<>>, <<"authority">>, <<"previous">>, <<"KED">>, <<"KP256">>, <<"authority", "KP256">>, <<"KED", "previous">>, <<"KP256", "KED">>}
RECURSIVE JoinComma(_)
JoinComma(sq) == IF Len(sq) = 1 THEN sq[1] ELSE sq[1] \o ", " \o JoinComma(Tail(sq))
ScopeText(sc) == IF sc = <<>> THEN "" ELSE " trusting " \o JoinComma(sc)

Item(kind, sub, t, t2, sc, alt, sc2) == [kind |-> kind, sub |-> sub, t |-> t, t2 |-> t2, sc |-> sc, alt |-> alt, sc2 |-> sc2]
Keyword(it) ==
    CASE it.kind = "check" -> (CASE it.sub = "one" -> "check if" [] it.sub = "all" -> "check all" [] it.sub = "reject" -> "reject if")
      [] it.kind = "policy" -> (IF it.sub = "allow" THEN "allow if" ELSE "deny if")
QueryText(it) ==
    "f($x), g(" \o TermText(it.t) \o ")" \o ScopeText(it.sc)
    \o (IF it.alt THEN " or h($x)" \o ScopeText(it.sc2) ELSE "")
ItemText(it) ==
    CASE it.kind = "fact" -> "f(" \o TermText(it.t) \o ")"
      [] it.kind = "rule" -> "r($x, " \o TermText(it.t) \o ") <- f($x), g(" \o TermText(it.t2) \o ")" \o ScopeText(it.sc)
      [] OTHER -> Keyword(it) \o " " \o QueryText(it)

Items ==
    {Item("fact", "-", t, "-", <<>>, FALSE, <<>>) : t \in TermKinds}
    \cup {Item("rule", "-", t, t2, sc, FALSE, <<>>) : t \in TermKinds, t2 \in {"i1", "str", "map"}, sc \in ItemScopes}
    \cup {Item("check", k, t, "-", sc, FALSE, <<>>) : k \in {"one", "all", "reject"}, t \in TermKinds, sc \in ItemScopes}
    \cup {Item("check", k, t, "-", sc, TRUE, sc2) : k \in {"one", "all", "reject"}, t \in {"i1", "null"}, sc \in ItemScopes, sc2 \in ItemScopes}
    \cup {Item("policy", k, t, "-", sc, FALSE, <<>>) : k \in {"allow", "deny"}, t \in TermKinds, sc \in ItemScopes}
    \cup {Item("policy", k, t, "-", sc, TRUE, sc2) : k \in {"allow", "deny"}, t \in {"i1", "arr"}, sc \in ItemScopes, sc2 \in ItemScopes}
NoItem == Item("fact", "-", "i1", "-", <<>>, FALSE, <<>>)

VARIABLES ast, str, item
vars == <<ast, str, item>>




Init ==
    IF Part = "strings"
    THEN /\ ast = A1 /\ item = NoItem
         /\ \E n \in 0..MaxLen : str \in [1..n -> Alphabet]
    ELSE IF Part = "items"
    THEN /\ ast = A1 /\ str = <<>> /\ item \in Items
    ELSE /\ str = <<>> /\ item = NoItem
         /\ ast \in Children

Next ==
    /\ Part = "exprs"
    /\ ast \in Children        \* only from the seed states
    /\ \E l \in Children :
         \/ \E op \in InfixOps \cup Methods2 : ast' = Bin(op, l, ast)
         \/ \E op \in InfixOps \cup Methods2 : ast' = Bin(op, ast, l)
         \/ \E op \in Quantifiers : ast' = Quant(op, l, ast)
         \/ \E op \in Methods1 \cup {"Negate", "Parens"} : ast' = Un(op, ast)
    /\ NodeOK(ast')
    /\ UNCHANGED <<str, item>>

Spec == Init /\ [][Next]_vars

\* Part 1: one literal, whole text, same contents
StringRoundTrip ==
    (Part = "strings") =>
        LET r == Lex(PrintStr(str)) IN r.ok /\ r.rest = <<>> /\ r.val = str

\* Part 2: VIEW used to check unique readability (run with and without, compare the state counts)
TextView == <<Show(ast), str, ItemText(item)>>
\* Part 3: two items never print the same text (checked with VIEW ItemView against the plain count)
ItemView == ItemText(item)

ExportStr ==
    (ExportOn /\ Part = "strings") => PrintT(<<"STR", ToJson([s |-> str, text |-> PrintStr(str)])>>)
ExportItem ==
    (ExportOn /\ Part = "items") => PrintT(<<"ITEM", ToJson([item |-> item, text |-> ItemText(item)])>>)
ExportExpr ==
    (ExportOn /\ Part = "exprs" /\ (SampleN = 1 \/ RandomElement(1..SampleN) = 1)) =>
        PrintT(<<"EXPR", ToJson([ast |-> ast, text |-> Show(ast)])>>)
=============================================================================
