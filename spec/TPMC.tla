-------------------------------- MODULE TPMC --------------------------------
(***************************************************************************)
(* C07: the third-party block protocol.  A holder asks for a block         *)
(* (request = signature of the last block of token A), the third party     *)
(* answers with resp = [payload, key, sig] where sig signs the payload AND *)
(* that previous signature, and the holder appends it.  The adversary      *)
(* offers the response - possibly re-attributed, re-signed, with another   *)
(* payload or re-encoded signature - to every token and position, under    *)
(* every claimed key.  One TLC state = one offer.                          *)
(***************************************************************************)
EXTENDS Chain, TLC, Json

CONSTANTS ExtAlgs, ExportOn

VARIABLES sc, seed
vars == <<sc, seed>>

R  == Key("R", "ed")
R2 == Key("R2", "ed")
E(a)  == Key("E", a)
E2 == Key("E2", "ed")
KN == Key("KN", "ed")

\* the tokens of a scenario, as operation logs (replayed through the real API) and as spec tokens
Op(name, from, root, nk, p, ek) ==
    [op |-> name, from |-> from, root |-> root, nk |-> nk, p |-> p, ek |-> ek, rkid |-> 0]

A == BuildTok(R, Key("K1", "ed"), "P1", 0)
LogA == <<Op("build", 0, R, Key("K1", "ed"), "P1", NoKey)>>

\* B: the token the response is offered to
Targets(ea) ==
    {[name |-> "same",     log |-> LogA, idx |-> 1, tok |-> A],
     [name |-> "extended", log |-> Append(LogA, Op("append", 1, R, Key("K2", "p256"), "P1", NoKey)), idx |-> 2,
      tok |-> AppendTok(A, Key("K2", "p256"), "P1")],
     [name |-> "after-tp", log |-> Append(LogA, Op("append3p", 1, R, Key("K2", "ed"), "T2", E2)), idx |-> 2,
      tok |-> AppendTPTok(A, Key("K2", "ed"), "T2", E2, ThirdPartySig(E2, "T2", Last(A).sig))],
     [name |-> "twin",     log |-> Append(LogA, Op("build", 0, R, Key("K3", "ed"), "P1", NoKey)), idx |-> 2,
      tok |-> BuildTok(R, Key("K3", "ed"), "P1", 0)],
     [name |-> "other-root", log |-> Append(LogA, Op("build", 0, R2, Key("K1", "ed"), "P1", NoKey)), idx |-> 2,
      tok |-> BuildTok(R2, Key("K1", "ed"), "P1", 0)]}

Resp(p, k, s) == [payload |-> p, key |-> k, sig |-> s]

\* responses the adversary can present, all derived from the honest response for A
Responses(ea, tgt) ==
    LET e == E(ea)
        honest == Resp("T1", e, ThirdPartySig(e, "T1", Last(A).sig))
    IN {[kind |-> "honest", r |-> honest],
        [kind |-> "reattributed", r |-> [honest EXCEPT !.key = E2]],
        [kind |-> "signed-by-other", r |-> [honest EXCEPT !.sig = ThirdPartySig(E2, "T1", Last(A).sig)]],
        [kind |-> "other-payload", r |-> [honest EXCEPT !.payload = "T2"]],
        [kind |-> "for-target", r |-> Resp("T1", e, ThirdPartySig(e, "T1", Last(tgt.tok).sig))],
        [kind |-> "no-prevsig", r |-> [honest EXCEPT !.sig = Sig(e, ExtMsg(1, "T1", <<>>))]],
        [kind |-> "version-0-layout", r |-> [honest EXCEPT !.sig = Sig(e, ExtMsg(0, "T1", <<Last(A).sig>>))]]}
       \cup {[kind |-> "reencoded", r |-> [honest EXCEPT !.sig.form = f]] : f \in 1..4}

Init ==
    /\ seed \in {[ea |-> ea, stage |-> 0] : ea \in ExtAlgs}
    /\ sc = [kind |-> "none"]

Next ==
    /\ seed.stage = 0
    /\ seed' = [seed EXCEPT !.stage = 1]
    /\ \E tgt \in Targets(seed.ea) : \E x \in Responses(seed.ea, tgt) : \E claimed \in {E(seed.ea), E2} :
          sc' = [kind |-> x.kind, target |-> tgt.name, log |-> tgt.log, idx |-> tgt.idx, tok |-> tgt.tok,
                 resp |-> x.r, claimed |-> claimed]

Spec == Init /\ [][Next]_vars
Ready == seed.stage = 1

\* the append is accepted iff the response carries the claimed key and a valid signature by it over
\* (payload, signature of the block it is appended after)
Accept(s) ==
    /\ s.resp.key = s.claimed
    /\ CanExtend(s.tok)
    /\ VerifySig(s.resp.key, ExtMsg(1, s.resp.payload, <<Last(s.tok).sig>>), s.resp.sig)

Result(s) == AppendTPTok(s.tok, KN, s.resp.payload, s.resp.key, s.resp.sig)

\* (i) an accepted response was minted for exactly this position by the stated key
BoundToPosition ==
    Ready => (Accept(sc) => /\ sc.resp.sig.signer = sc.claimed
                           /\ sc.resp.sig.msg.prev = <<Last(sc.tok).sig>>
                           /\ sc.resp.sig.msg.payload = sc.resp.payload)
\* (ii) the resulting token verifies, and only accepted offers produce a verifying token
ResultVerifies ==
    Ready => LET root == IF sc.target = "other-root" THEN R2 ELSE R IN
             /\ Accept(sc) => Verify(Result(sc), root)
             \* a refused response (other than a wrong claimed key) would not even yield a verifying token
             /\ (~Accept(sc) /\ sc.resp.key = sc.claimed) => ~Verify(Result(sc), root)

Export ==
    (ExportOn /\ Ready) =>
        PrintT(<<"TP", ToJson([sc |-> sc, accept |-> Accept(sc),
                               accept_own_key |-> Accept([sc EXCEPT !.claimed = sc.resp.key]),
                               result |-> Result(sc)])>>)

PV == [P1 |-> 3, T1 |-> 5, T2 |-> 5]
AlgsBoth == {"ed", "p256"}
=============================================================================
