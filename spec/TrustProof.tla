----------------------------- MODULE TrustProof -----------------------------
(***************************************************************************)
(* C03, unbounded: the scope -> trusted-origins map of Authorizer.tla      *)
(* (definitions copied verbatim, without the recursive Datalog part that   *)
(* TLAPS does not handle) and a machine-checked proof (tlapm) that         *)
(* appending a block whose key nobody names leaves the trusted origins of  *)
(* EVERY element of the original program unchanged, and that the new       *)
(* block's id is in none of them - for any number of blocks, any scopes.   *)
(* TLC checks the bounded consequences (Monotone in AuthMC.tla); this      *)
(* lemma is the part of the argument that does not depend on the bounds.   *)
(***************************************************************************)
EXTENDS Naturals, Sequences, FiniteSets

AZ == 99

NBlocks(P) == Len(P.blocks)
BlockIds(P) == 0..(NBlocks(P) - 1)
Blk(P, id) == P.blocks[id + 1]

ScopeWords == {"authority", "previous"}
KeyBlocks(P, k) == {id \in BlockIds(P) : Blk(P, id).ext = k}
DefaultTrust == {0, AZ}

Trusted(P, scope, dflt, cur) ==
    IF scope = {} THEN dflt \cup {cur, AZ}
    ELSE {AZ, cur}
         \cup (IF "authority" \in scope THEN {0} ELSE {})
         \cup (IF "previous" \in scope /\ cur # AZ THEN 0..cur ELSE {})
         \cup UNION {KeyBlocks(P, k) : k \in scope \ ScopeWords}

BlockTrust(P, id) == Trusted(P, Blk(P, id).scope, DefaultTrust, id)
AuthzTrust(P)     == Trusted(P, P.authz.scope, DefaultTrust, AZ)

ElemTrust(P, scope, owner) ==
    IF owner = AZ THEN Trusted(P, scope, AuthzTrust(P), AZ)
    ELSE Trusted(P, scope, BlockTrust(P, owner), owner)

Extend(P, E) == [P EXCEPT !.blocks = Append(@, E)]

(***************************************************************************)
(* Hypotheses: P is a program with n >= 1 blocks (n < AZ), E is appended   *)
(* as block n; `sc` is a scope of an element owned by `id` (a block of P   *)
(* or the authorizer) that does not name E's key, and neither the owner's  *)
(* block scope nor the authorizer scope names it.                          *)
(***************************************************************************)
WellFormed(P) ==
    /\ P.blocks \in Seq([ext : STRING, scope : SUBSET STRING])
    /\ Len(P.blocks) >= 1 /\ Len(P.blocks) < AZ
    /\ P.authz.scope \in SUBSET STRING
    /\ P = [blocks |-> P.blocks, authz |-> P.authz]

LEMMA ExtendBlocks ==
    ASSUME NEW P, NEW E, WellFormed(P)
    PROVE  /\ NBlocks(Extend(P, E)) = NBlocks(P) + 1
           /\ \A id \in BlockIds(P) : Blk(Extend(P, E), id) = Blk(P, id)
           /\ Blk(Extend(P, E), NBlocks(P)) = E
           /\ Extend(P, E).authz = P.authz
           /\ BlockIds(Extend(P, E)) = BlockIds(P) \cup {NBlocks(P)}
  BY DEF WellFormed, Extend, NBlocks, BlockIds, Blk

LEMMA KeyBlocksExtend ==
    ASSUME NEW P, NEW E, WellFormed(P), NEW k, k # E.ext
    PROVE  KeyBlocks(Extend(P, E), k) = KeyBlocks(P, k)
  <1>1. /\ BlockIds(Extend(P, E)) = BlockIds(P) \cup {NBlocks(P)}
        /\ \A id \in BlockIds(P) : Blk(Extend(P, E), id) = Blk(P, id)
        /\ Blk(Extend(P, E), NBlocks(P)) = E
    BY ExtendBlocks
  <1>2. QED BY <1>1 DEF KeyBlocks

\* the trusted origins computed in the extended program equal those of the original, whenever the
\* scope does not name E's key and `cur` is an owner of the original program
LEMMA TrustedExtend ==
    ASSUME NEW P, NEW E, WellFormed(P), NEW scope, E.ext \notin scope, NEW dflt, NEW cur
    PROVE  Trusted(Extend(P, E), scope, dflt, cur) = Trusted(P, scope, dflt, cur)
  <1>1. \A k \in scope \ ScopeWords : KeyBlocks(Extend(P, E), k) = KeyBlocks(P, k)
    BY KeyBlocksExtend
  <1>2. UNION {KeyBlocks(Extend(P, E), k) : k \in scope \ ScopeWords} = UNION {KeyBlocks(P, k) : k \in scope \ ScopeWords}
    BY <1>1
  <1>3. QED BY <1>2 DEF Trusted

THEOREM ElemTrustUnchanged ==
    ASSUME NEW P, NEW E, WellFormed(P),
           NEW id \in BlockIds(P) \cup {AZ}, NEW sc,
           E.ext \notin sc,
           E.ext \notin P.authz.scope,
           \A b \in BlockIds(P) : E.ext \notin Blk(P, b).scope
    PROVE  ElemTrust(Extend(P, E), sc, id) = ElemTrust(P, sc, id)
  <1>1. Extend(P, E).authz = P.authz /\ \A b \in BlockIds(P) : Blk(Extend(P, E), b) = Blk(P, b)
    BY ExtendBlocks
  <1>2. AuthzTrust(Extend(P, E)) = AuthzTrust(P)
    BY <1>1, TrustedExtend DEF AuthzTrust
  <1>3. \A b \in BlockIds(P) : BlockTrust(Extend(P, E), b) = BlockTrust(P, b)
    BY <1>1, TrustedExtend DEF BlockTrust
  <1>4. CASE id = AZ
    BY <1>2, <1>4, TrustedExtend DEF ElemTrust
  <1>5. CASE id # AZ
    <2>1. id \in BlockIds(P)
      BY <1>5
    <2>2. QED BY <1>3, <1>5, <2>1, TrustedExtend DEF ElemTrust
  <1>6. QED BY <1>4, <1>5

\* every trusted origin of an element of P is a block of P or the authorizer ...
LEMMA TrustedWithin ==
    ASSUME NEW P, WellFormed(P), NEW scope, NEW dflt, dflt \subseteq BlockIds(P) \cup {AZ},
           NEW cur \in BlockIds(P) \cup {AZ}
    PROVE  Trusted(P, scope, dflt, cur) \subseteq BlockIds(P) \cup {AZ}
  <1>1. 0 \in BlockIds(P)
    BY DEF WellFormed, BlockIds, NBlocks
  <1>2. (cur # AZ) => 0..cur \subseteq BlockIds(P)
    BY DEF BlockIds, NBlocks, WellFormed, AZ
  <1>3. \A k : KeyBlocks(P, k) \subseteq BlockIds(P)
    BY DEF KeyBlocks
  <1>4. UNION {KeyBlocks(P, k) : k \in scope \ ScopeWords} \subseteq BlockIds(P)
    BY <1>3
  <1>5. QED BY <1>1, <1>2, <1>4 DEF Trusted

THEOREM ElemTrustWithin ==
    ASSUME NEW P, WellFormed(P), NEW id \in BlockIds(P) \cup {AZ}, NEW sc
    PROVE  ElemTrust(P, sc, id) \subseteq BlockIds(P) \cup {AZ}
  <1>1. 0 \in BlockIds(P)
    BY DEF WellFormed, BlockIds, NBlocks
  <1>2. DefaultTrust \subseteq BlockIds(P) \cup {AZ}
    BY <1>1 DEF DefaultTrust
  <1>3. AuthzTrust(P) \subseteq BlockIds(P) \cup {AZ}
    BY <1>2, TrustedWithin DEF AuthzTrust
  <1>4. \A b \in BlockIds(P) : BlockTrust(P, b) \subseteq BlockIds(P) \cup {AZ}
    BY <1>2, TrustedWithin DEF BlockTrust
  <1>5. CASE id = AZ
    BY <1>3, <1>5, TrustedWithin DEF ElemTrust
  <1>6. CASE id # AZ
    BY <1>4, <1>6, TrustedWithin DEF ElemTrust
  <1>7. QED BY <1>5, <1>6

\* ... hence the appended block (id NBlocks(P)) is trusted by no element of the original program
THEOREM NewBlockNotTrusted ==
    ASSUME NEW P, NEW E, WellFormed(P),
           NEW id \in BlockIds(P) \cup {AZ}, NEW sc,
           E.ext \notin sc, E.ext \notin P.authz.scope,
           \A b \in BlockIds(P) : E.ext \notin Blk(P, b).scope
    PROVE  NBlocks(P) \notin ElemTrust(Extend(P, E), sc, id)
  <1>1. ElemTrust(Extend(P, E), sc, id) = ElemTrust(P, sc, id)
    BY ElemTrustUnchanged
  <1>2. ElemTrust(P, sc, id) \subseteq BlockIds(P) \cup {AZ}
    BY ElemTrustWithin
  <1>3. NBlocks(P) \notin BlockIds(P) \cup {AZ}
    BY DEF BlockIds, NBlocks, WellFormed, AZ
  <1>4. QED BY <1>1, <1>2, <1>3
=============================================================================
