------------------------------ MODULE Version ------------------------------
(***************************************************************************)
(* C16: Datalog language versions.  Every language feature has the version *)
(* that introduced it (Biscuit specification, "Versioning"); a block       *)
(* declares the lowest version covering all the features it uses (at least *)
(* 3.2 for third-party blocks); a block whose declared version is outside  *)
(* the supported range or lower than a feature it contains is refused      *)
(* before evaluation.  Versions on the wire: 3.0 = 3, 3.1 = 4, 3.2 = 5,    *)
(* 3.3 = 6.                                                                *)
(***************************************************************************)
EXTENDS Naturals, Sequences, FiniteSets, TLC, Json

CONSTANTS MaxFeatures, ExportOn

V30 == 3
V31 == 4
V32 == 5
V33 == 6
Supported == V30..V33

\* features introduced by 3.1
F31 == {"scope_block", "scope_rule", "scope_check", "check_all", "op_bitand", "op_bitor", "op_bitxor", "op_strict_noteq"}
\* features introduced by 3.3 (null, arrays and maps count wherever they occur, at any nesting depth)
F33 == {"reject_if", "closure_lazy_and", "closure_lazy_or", "closure_all", "closure_any", "typeof", "hetero_eq", "hetero_neq",
        "null_fact", "null_rule_head", "null_rule_body", "null_expr", "null_in_array",
        "array_fact", "array_rule_body", "array_expr", "map_fact", "map_expr", "get_array", "get_map"}
\* operators are detected WHEREVER they stand: after an older operator in the same expression, in a later
\* expression of the query, in a later alternative of a check, in a rule
Places == {"after_older", "second_expr", "second_alt", "in_rule"}
Placed31 == {o \o "@" \o p : o \in {"op_bitand", "op_bitor", "op_bitxor", "op_strict_noteq"}, p \in Places}
Placed33 == {o \o "@" \o p : o \in {"hetero_eq", "hetero_neq", "typeof", "closure_lazy_or"}, p \in Places}
F30 == {"plain_fact", "plain_rule", "check_one", "op_strict_eq", "op_lt", "set_fact", "string_ops"}
Features == F30 \cup F31 \cup F33 \cup Placed31 \cup Placed33

MinVersion(f) == IF f \in F33 \cup Placed33 THEN V33 ELSE IF f \in F31 \cup Placed31 THEN V31 ELSE V30

MaxOf(S) == CHOOSE x \in S : \A y \in S : y <= x

\* the version the builders must declare
Declared(fs, tp) == MaxOf({V30} \cup {MinVersion(f) : f \in fs} \cup (IF tp THEN {V32} ELSE {}))

\* is a block with these features accepted under declared version d ?
Loads(fs, tp, d) ==
    /\ d \in Supported
    /\ \A f \in fs : MinVersion(f) <= d
    /\ tp => d >= V32

VARIABLES fs, tp, d
vars == <<fs, tp, d>>

FeatureSets == {{f} : f \in Features} \cup (IF MaxFeatures >= 2 THEN {{f, g} : f \in Features, g \in Features} ELSE {})

Init == fs \in FeatureSets /\ tp \in BOOLEAN /\ d \in 0..8
Next == UNCHANGED vars
Spec == Init /\ [][Next]_vars

\* the declared version loads, and nothing lower does
DeclaredIsMinimal ==
    /\ Loads(fs, tp, Declared(fs, tp))
    /\ \A x \in 0..8 : x < Declared(fs, tp) => ~Loads(fs, tp, x)
\* accepting is monotone in the declared version within the supported range
Monotone == \A x \in Supported : (Loads(fs, tp, d) /\ x >= d) => Loads(fs, tp, x)

Export ==
    ExportOn => PrintT(<<"VER", ToJson([fs |-> fs, tp |-> tp, d |-> d, declared |-> Declared(fs, tp), loads |-> Loads(fs, tp, d)])>>)
=============================================================================
